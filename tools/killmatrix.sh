#!/bin/sh
# tools/killmatrix.sh <lane> <nlanes> : apply every stored seeded change (lane-th of nlanes) to a scratch worktree of
# /repo, run the quick check of its property, record rc in /tmp/sw/km/<seed>.txt, restore.  Evidence files are
# overwritten by these runs: regenerate them on the clean tree afterwards.
LANE=${1:-0}; N=${2:-1}
M=/tmp/sw/km$LANE
mkdir -p /tmp/sw/km
[ -d $M ] || git -C /repo worktree add -f --detach $M HEAD >/dev/null 2>&1
git -C $M checkout -q --detach $(git -C /repo rev-parse HEAD) 2>/dev/null
k=0
for d in /verif/seeded/C*; do
  s=$(basename $d); id=$(echo $s | cut -c1-3)
  # lanes by property so that two lanes never run the same check (evidence / replay files) at once
  p=$(echo $id | cut -c2-3 | sed 's/^0//')
  [ $((p % N)) -eq $LANE ] || continue
  [ -f /tmp/sw/km/$s.txt ] && continue
  git -C $M checkout -- .
  if ! git -C $M apply $d/patch.diff 2>/dev/null; then echo "$s rc=NA patch does not apply" > /tmp/sw/km/$s.txt; continue; fi
  out=$(cd /verif && VERIF_REPO=$M ./check $id quick 2>&1); rc=$?
  echo "$s rc=$rc $(echo "$out" | tail -1)" > /tmp/sw/km/$s.txt
  echo "$out" | grep "^  \[" | head -2 >> /tmp/sw/km/$s.txt
done
git -C $M checkout -- .
