#!/bin/sh
# tools/mutrun.sh <patchfile|-R:commit> <ID> [tier] : apply a change to the scratch worktree /tmp/sw/mut, run a check on it, restore
M=/tmp/sw/mut
[ -d $M ] || git -C /repo worktree add -f --detach $M HEAD >/dev/null 2>&1
git -C $M checkout -q --detach $(git -C /repo rev-parse HEAD) 2>/dev/null
git -C $M checkout -- . 
case "$1" in
  -R:*) git -C /repo show "${1#-R:}" | git -C $M apply -R || exit 3 ;;
  *) git -C $M apply "$1" || exit 3 ;;
esac
shift
ID=$1; TIER=${2:-quick}
cd /verif && VERIF_REPO=$M ./check $ID $TIER 2>&1 | tail -${TAILN:-6}
git -C $M checkout -- .
