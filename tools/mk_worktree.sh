#!/bin/sh
# tools/mk_worktree.sh <dir> : scratch git worktree of /repo HEAD with the C module built in place
D="$1"
git -C /repo worktree add -f --detach "$D" HEAD >/dev/null 2>&1 || exit 1
cd "$D" && /venv/bin/python setup.py build_ext --inplace >/tmp/build_$$.log 2>&1 || { tail -20 /tmp/build_$$.log; exit 1; }
rm -f /tmp/build_$$.log
ls "$D"/ImageD11/_cImageD11*.so
