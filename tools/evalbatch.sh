#!/bin/sh
# usage: evalbatch.sh C15 C17 ...
H=$(git -C /repo rev-parse HEAD)
for P in "$@"; do
  git -C /tmp/sw/$P checkout -q -- . ; git -C /tmp/sw/$P checkout -q --detach $H
  (cd /tmp/sw/$P && /venv/bin/python setup.py build_ext --inplace >/dev/null 2>&1)
  for s in c d e f g h i j k l m n o p q r s t; do
    [ -d /tmp/sw/$P/seeded_$P$s ] || continue; [ -f /tmp/sw/eval_$P$s.json ] && continue
    cd /verif && python3 tools/eval_seeded.py /tmp/sw/$P seeded_$P$s $P > /tmp/sw/eval_$P$s.json 2>&1
    echo "done $P$s"
  done
done
