#!/usr/bin/env python3
"""tools/mk_seed_prompts.py <round> <letters-so-far> <new-letters> <emphasis-file>
Writes /tmp/sw/PROMPT<round>_Cxx.txt for the twenty properties from the metas of the seeded changes kept so far.
Example: tools/mk_seed_prompts.py 6 abcdefghij kl tools/seed_emphasis_round6.txt"""
import json, sys, os
rnd, sofar, new, emph = sys.argv[1], sys.argv[2], sys.argv[3], open(sys.argv[4]).read().strip()
V = os.path.dirname(os.path.dirname(os.path.abspath(__file__)))
tmpl = open(os.path.join(V, "tools", "seed_prompt_round3_example.txt")).read()
head = tmpl[:tmpl.index("NOTE: four changes")]
task = tmpl[tmpl.index("TASK: produce TWO"):]
A, B = new[0].upper(), new[1].upper()
for n in range(1, 21):
    pid = "C%02d" % n
    notes = []
    for i, v in enumerate(sofar):
        m = json.load(open(os.path.join(V, "seeded", pid + v, "meta.json")))
        f = m.get("files_changed") or m.get("files") or m.get("file") or ""
        if isinstance(f, list):
            f = ", ".join(f)
        sm = (m.get("summary") or m.get("description") or "")[:200].replace("\n", " ")
        notes.append("  (%d) %s -- %s" % (i + 1, f, sm))
    t = task.replace("C16", pid).replace('("E" and "F")', '("%s" and "%s")' % (A, B)) \
        .replace("Changes E and F", "Changes %s and %s" % (A, B)).replace("X in {e, f}", "X in {%s, %s}" % (new[0], new[1])) \
        .replace("X (e or f)", "X (%s or %s)" % (new[0], new[1])).replace("for E and F", "for %s and %s" % (A, B))
    note = ("NOTE: %d changes for this property already exist from earlier rounds; do NOT repeat them or close variants of "
            "them, and choose DIFFERENT functions / files / trigger conditions:\n" % len(sofar) + "\n".join(notes) +
            "\n\n" + emph + "\n\nIMPORTANT housekeeping: several agents work on sibling worktrees of the same repository at "
            "the same time. NEVER use `git stash` (the stash is shared between worktrees); to switch between clean and "
            "changed states use `git diff > file` / `git apply -R file` / `git checkout -- .` inside YOUR worktree only. "
            "Run the full test suite as described; each run uses several cores, so do not start more than one at a "
            "time.\n\n")
    open("/tmp/sw/PROMPT%s_%s.txt" % (rnd, pid), "w").write(head.replace("C16", pid) + note + t)
print("written")
