#!/usr/bin/env python3
"""tools/eval_seeded.py <worktree> <seeded_dir_name> <PROPERTY> [--no-tests] [--checks C03,C05]

Confirms a seeded change delivered by a sub-agent and runs our check against it:
  1. demo on the clean worktree  -> must exit 0
  2. apply patch (rebuild C if src/ touched); demo -> must exit 1
  3. baseline test suite in the worktree with the patch -> the 179 stable tests pass
  4. ./check <PROPERTY> quick with VERIF_REPO=<worktree>  -> records whether it is detected
  5. un-apply; store /verif/seeded/<name>/{patch.diff,demo.py,meta.json}
"""
import sys, os, subprocess, json, shutil, time
import xml.etree.ElementTree as ET

VERIF = os.path.dirname(os.path.dirname(os.path.abspath(__file__)))
PY = "/venv/bin/python"


def sh(cmd, cwd=None, env=None, timeout=3600):
    p = subprocess.run(cmd, shell=True, cwd=cwd, env=env, stdout=subprocess.PIPE,
                       stderr=subprocess.STDOUT, timeout=timeout)
    return p.returncode, p.stdout.decode(errors="replace")


def main():
    wt, name, pid = sys.argv[1], sys.argv[2], sys.argv[3]
    notests = "--no-tests" in sys.argv
    checks = [pid]
    for a in sys.argv:
        if a.startswith("--checks="):
            checks = a.split("=", 1)[1].split(",")
    sd = os.path.join(wt, name)
    patch = os.path.join(sd, "patch.diff")
    env = dict(os.environ, PYTHONPATH=wt, PYTHONDONTWRITEBYTECODE="1", OMP_NUM_THREADS="4")
    rec = {"property": pid, "name": name}
    sh("git checkout -- .", cwd=wt)
    touches_c = "src/" in open(patch).read()
    if touches_c:
        sh("%s setup.py build_ext --inplace" % PY, cwd=wt)
    rc0, out0 = sh("%s %s/demo.py" % (PY, name), cwd=wt, env=env, timeout=600)
    rec["demo_clean"] = {"rc": rc0, "tail": out0[-400:]}
    rc, out = sh("git apply %s" % patch, cwd=wt)
    if rc != 0:
        print("PATCH DOES NOT APPLY", out)
        return 1
    if touches_c:
        rc, out = sh("%s setup.py build_ext --inplace" % PY, cwd=wt)
        if rc != 0:
            print("BUILD FAILED", out[-2000:])
    rc1, out1 = sh("%s %s/demo.py" % (PY, name), cwd=wt, env=env, timeout=600)
    rec["demo_patched"] = {"rc": rc1, "tail": out1[-600:]}
    if not notests:
        junit = "/tmp/junit_%s.xml" % name
        t0 = time.time()
        rc, out = sh("%s -m pytest -q -p no:cacheprovider --timeout=900 --continue-on-collection-errors "
                     "--junitxml=%s test" % (PY, junit), cwd=wt, env=env, timeout=3000)
        base = json.load(open("/root/.vp/BASELINE.json"))
        passed = set()
        for tc in ET.parse(junit).getroot().iter("testcase"):
            if not any(ch.tag in ("failure", "error", "skipped") for ch in tc):
                passed.add("%s::%s" % (tc.get("classname"), tc.get("name")))
        missing = sorted(set(base["stable_pass"]) - passed)
        rec["tests"] = {"summary": out.strip().splitlines()[-1], "stable_missing": missing,
                        "wall_s": round(time.time() - t0)}
        os.remove(junit)
        # remove files the tests drop in the worktree root
        sh("git clean -fdq -e 'seeded_*' -e '_cImageD11*' -e build -e '*.so'", cwd=wt)
    det = {}
    for c in checks:
        e2 = dict(os.environ, VERIF_REPO=wt)
        rc, out = sh("./check %s quick" % c, cwd=VERIF, env=e2, timeout=3000)
        lines = [l for l in out.splitlines() if l.startswith(("VIOLATION", "  [", "HARNESS", "KNOWN"))]
        det[c] = {"rc": rc, "lines": lines[:6], "last": out.strip().splitlines()[-1] if out.strip() else ""}
    rec["checks"] = det
    sh("git checkout -- .", cwd=wt)
    if touches_c:
        sh("%s setup.py build_ext --inplace" % PY, cwd=wt)
    confirmed = (rc0 == 0 and rc1 != 0 and (notests or not rec["tests"]["stable_missing"]))
    rec["confirmed"] = confirmed
    rec["detected_by"] = [c for c, d in det.items() if d["rc"] == 1]
    print(json.dumps(rec, indent=1))
    if confirmed:
        dst = os.path.join(VERIF, "seeded", name.replace("seeded_", ""))
        os.makedirs(dst, exist_ok=True)
        shutil.copy(patch, os.path.join(dst, "patch.diff"))
        shutil.copy(os.path.join(sd, "demo.py"), os.path.join(dst, "demo.py"))
        meta = {}
        try:
            meta = json.load(open(os.path.join(sd, "meta.json")))
        except Exception as e:
            meta = {"error_reading_agent_meta": str(e)}
        dstmeta = os.path.join(dst, "meta.json")
        if os.path.exists(dstmeta):
            try:
                old = json.load(open(dstmeta)).get("verification", {})
                hist = old.pop("earlier_evaluations", [])
                hist.append({"detected_by": old.get("detected_by"), "checks": old.get("checks")})
                rec["earlier_evaluations"] = hist
                if "tests" not in rec and "tests" in old:
                    rec["tests"] = old["tests"]          # re-evaluation without repeating the test suite
            except Exception:
                pass
        meta["verification"] = rec
        json.dump(meta, open(os.path.join(dst, "meta.json"), "w"), indent=1)
    return 0


if __name__ == "__main__":
    sys.exit(main())
