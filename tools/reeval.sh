#!/bin/sh
# tools/reeval.sh C11n ... : re-evaluate stored seeds against their worktree (no test suite) and show the result
for s in "$@"; do
  p=$(echo $s | cut -c1-3)
  python3 /verif/tools/eval_seeded.py /tmp/sw/$p seeded_$s $p --no-tests > /tmp/sw/eval_$s.json 2>&1
  /verif/tools/show_eval.sh $s
done
