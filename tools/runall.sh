#!/bin/sh
# tools/runall.sh [tier] : run every claimed check, print one line each (seed from VERIF_SEED)
TIER=${1:-quick}
cd /verif
for n in 01 02 03 04 05 06 07 08 09 10 11 12 13 14 15 16 17 18 19 20; do
  out=$(./check C$n $TIER 2>&1); rc=$?
  echo "rc=$rc $(echo "$out" | tail -1)"
  [ $rc -ne 0 ] && echo "$out" | grep -v "^     \|^)" | tail -8
done
