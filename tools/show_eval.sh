#!/bin/sh
for f in "$@"; do python3 - <<PY
import json
try:
    r=json.load(open('/tmp/sw/eval_$f.json'))
    print('$f','confirmed',r['confirmed'],'detected',r['detected_by'],'| tests',r.get('tests',{}).get('summary'), 'missing',r.get('tests',{}).get('stable_missing'), '| demo', r['demo_clean']['rc'], r['demo_patched']['rc'])
    for c,d in r['checks'].items(): print('   ',c, d['rc'], d['lines'][:2], d['last'])
except Exception as e:
    print('$f ERR',e, open('/tmp/sw/eval_$f.json').read()[-800:])
PY
done
