#!/bin/sh
# tools/q.sh <ID> [tier] : run one check, print violation / harness lines, the summary and the exit code
cd /verif; out=$(./check $1 ${2:-quick} 2>&1); rc=$?
echo "$out" | grep "^  \[\|^VIOLATION\|HARNESS\|Error\|seed=" | cut -c1-${W:-300} | sort | uniq -c | head -${N:-8}
echo "rc=$rc"
