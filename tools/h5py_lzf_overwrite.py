import h5py, numpy as np, os
fn='/tmp/proto/t4.h5'
for first in ([-0.0, 1.5843741636772393, 1.1276411144358462, 1.7034351738579971, 6.264140201568757e-233], [0.,0,0,0,0], [1.,2,3,4,5]):
    if os.path.exists(fn): os.remove(fn)
    with h5py.File(fn,'a') as h:
        h.create_dataset('x', data=np.array(first), compression='lzf')
    with h5py.File(fn,'a') as h:
        h['x'][:] = np.array([-433108.98,  291788.12, -124826.3,  783546.4,  927326.2])
    with h5py.File(fn,'r') as h:
        try: print("ok", h['x'][:])
        except Exception as e: print("READ ERR", first[:2], e)
