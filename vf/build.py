"""Rebuild ImageD11's compiled module from the *working tree* of the repository
and expose it through a shadow package, so that checks always run the current
C and Python sources without ever writing into the repository.

flavours:
  opt   -O2 -fopenmp (the shipping flags of setup.py)
  asan  -O1 -g -fopenmp -fsanitize=address,undefined (asserts enabled)

Usage from a check process (before importing ImageD11):

    from vf import build
    env = build.ensure("opt")          # dict of environment variables for children
    build.activate("opt")              # or: put the shadow first on sys.path here
"""
from __future__ import print_function
import os, sys, hashlib, subprocess, shutil, fcntl, time, glob, sysconfig

VERIF = os.path.dirname(os.path.dirname(os.path.abspath(__file__)))
REPO = os.environ.get("VERIF_REPO", "/repo")
BUILDROOT = os.path.join(VERIF, ".build")

CNAMES = ("blobs.c cdiffraction.c cimaged11utils.c closest.c connectedpixels.c "
          "darkflat.c localmaxlabel.c sparse_image.c splat.c").split()

FLAGS = {
    "opt": ["-O2", "-fopenmp"],
    "dbg": ["-O1", "-g", "-fopenmp", "-fno-omit-frame-pointer"],      # for valgrind memcheck
    "asan": ["-O1", "-g", "-fopenmp", "-fno-omit-frame-pointer",
             "-fsanitize=address,undefined", "-fno-sanitize-recover=undefined"],
}
LDFLAGS = {
    "opt": ["-fopenmp"],
    "dbg": ["-fopenmp"],
    "asan": ["-fopenmp", "-fsanitize=address,undefined"],
}


class BuildError(Exception):
    pass


def _src_files(repo):
    src = os.path.join(repo, "src")
    names = sorted(f for f in os.listdir(src)
                   if f.endswith((".c", ".h", ".pyf")))
    return [os.path.join(src, n) for n in names]


def source_key(repo, flavour):
    h = hashlib.sha1()
    h.update(repr(FLAGS[flavour]).encode())
    h.update(os.path.abspath(repo).encode())
    for f in _src_files(repo):
        h.update(os.path.basename(f).encode())
        with open(f, "rb") as fh:
            h.update(fh.read())
    return h.hexdigest()[:16]


def _run(cmd, cwd, log):
    p = subprocess.run(cmd, cwd=cwd, stdout=subprocess.PIPE,
                       stderr=subprocess.STDOUT)
    log.write(("$ " + " ".join(cmd) + "\n").encode())
    log.write(p.stdout)
    if p.returncode != 0:
        raise BuildError("command failed: %s\n%s" % (" ".join(cmd),
                         p.stdout.decode(errors="replace")[-4000:]))


def _compile(repo, flavour, bdir):
    import numpy, numpy.f2py
    from concurrent.futures import ThreadPoolExecutor
    src = os.path.join(repo, "src")
    obj = os.path.join(bdir, "obj")
    os.makedirs(obj, exist_ok=True)
    f2pyinc = os.path.join(os.path.dirname(os.path.abspath(numpy.f2py.__file__)), "src")
    incs = ["-I" + src, "-I" + numpy.get_include(), "-I" + f2pyinc,
            "-I" + sysconfig.get_paths()["include"]]
    with open(os.path.join(bdir, "build.log"), "wb") as log:
        _run([sys.executable, "-m", "numpy.f2py", os.path.join(src, "_cImageD11.pyf")],
             obj, log)
        units = [(os.path.join(obj, "_cImageD11module.c"), "_cImageD11module.o"),
                 (os.path.join(f2pyinc, "fortranobject.c"), "fortranobject.o")]
        units += [(os.path.join(src, c), c[:-2] + ".o") for c in CNAMES]
        base = ["gcc", "-fPIC", "-c", "-Wno-unused-function",
                "-DNPY_NO_DEPRECATED_API=0"] + incs

        def one(u):
            s, o = u
            fl = FLAGS[flavour]
            if os.path.basename(s) in ("_cImageD11module.c", "fortranobject.c"):
                # wrapper code: no sanitizer instrumentation needed, keep it quick
                fl = ["-O1", "-fopenmp"] if flavour != "opt" else fl
            cmd = base + fl + [s, "-o", os.path.join(obj, o)]
            p = subprocess.run(cmd, stdout=subprocess.PIPE, stderr=subprocess.STDOUT)
            return cmd, p
        with ThreadPoolExecutor(len(units)) as ex:
            res = list(ex.map(one, units))
        for cmd, p in res:
            log.write(("$ " + " ".join(cmd) + "\n").encode())
            log.write(p.stdout)
        for cmd, p in res:
            if p.returncode != 0:
                raise BuildError("compile failed: %s\n%s" % (
                    " ".join(cmd), p.stdout.decode(errors="replace")[-4000:]))
        so = "_cImageD11" + sysconfig.get_config_var("EXT_SUFFIX")
        _run(["gcc", "-shared"] + [os.path.join(obj, o) for _, o in units] +
             LDFLAGS[flavour] + ["-lm", "-o", os.path.join(bdir, so)], obj, log)
    shutil.rmtree(obj, ignore_errors=True)
    return os.path.join(bdir, so)


def _make_shadow(repo, bdir, so):
    sh = os.path.join(bdir, "shadow", "ImageD11")
    if os.path.isdir(os.path.dirname(sh)):
        shutil.rmtree(os.path.dirname(sh))
    os.makedirs(sh)
    pkg = os.path.join(repo, "ImageD11")
    for name in os.listdir(pkg):
        if name.startswith("_cImageD11") and name.endswith((".so", ".pyd")):
            continue
        if name == "__pycache__":
            continue
        os.symlink(os.path.join(pkg, name), os.path.join(sh, name))
    os.symlink(so, os.path.join(sh, os.path.basename(so)))


def _prune(keep):
    if not os.path.isdir(BUILDROOT):
        return
    ds = [d for d in glob.glob(os.path.join(BUILDROOT, "opt-*")) +
          glob.glob(os.path.join(BUILDROOT, "asan-*")) + glob.glob(os.path.join(BUILDROOT, "dbg-*")) if os.path.isdir(d)]
    ds.sort(key=os.path.getmtime, reverse=True)
    for d in ds[9:]:
        if d != keep:
            shutil.rmtree(d, ignore_errors=True)


def ensure(flavour="opt", repo=None):
    """Build (or reuse) the flavour for the current working tree.  Returns the
    build directory."""
    repo = repo or REPO
    os.makedirs(BUILDROOT, exist_ok=True)
    key = source_key(repo, flavour)
    bdir = os.path.join(BUILDROOT, "%s-%s" % (flavour, key))
    lockf = open(os.path.join(BUILDROOT, ".lock-%s-%s" % (flavour, key)), "w")
    fcntl.flock(lockf, fcntl.LOCK_EX)
    try:
        done = os.path.join(bdir, "DONE")
        if not os.path.exists(done):
            if os.path.isdir(bdir):
                shutil.rmtree(bdir)
            os.makedirs(bdir)
            so = _compile(repo, flavour, bdir)
            _make_shadow(repo, bdir, so)
            with open(done, "w") as f:
                f.write(time.strftime("%Y-%m-%dT%H:%M:%S"))
            _prune(bdir)
        else:
            # the python side is symlinked, but new files may have appeared
            sh = os.path.join(bdir, "shadow", "ImageD11")
            pkg = os.path.join(repo, "ImageD11")
            for name in os.listdir(pkg):
                if name == "__pycache__" or (name.startswith("_cImageD11") and
                                             name.endswith((".so", ".pyd"))):
                    continue
                if not os.path.lexists(os.path.join(sh, name)):
                    os.symlink(os.path.join(pkg, name), os.path.join(sh, name))
            os.utime(bdir)
    finally:
        fcntl.flock(lockf, fcntl.LOCK_UN)
        lockf.close()
    return bdir


def libasan():
    return subprocess.check_output(["gcc", "-print-file-name=libasan.so"]).decode().strip()


def child_env(flavour="opt", threads=None, repo=None):
    """Environment for a child process that should import the rebuilt package."""
    bdir = ensure(flavour, repo)
    env = dict(os.environ)
    pp = [os.path.join(bdir, "shadow"), VERIF]
    if env.get("PYTHONPATH"):
        pp.append(env["PYTHONPATH"])
    env["PYTHONPATH"] = os.pathsep.join(pp)
    env["VERIF_SHADOW"] = os.path.join(bdir, "shadow")
    env["VERIF_FLAVOUR"] = flavour
    env["VERIF_REPO"] = repo or REPO
    env["NUMBA_CACHE_DIR"] = os.path.join(BUILDROOT, "numba")
    env["PYTHONHASHSEED"] = "0"
    env["PYTHONDONTWRITEBYTECODE"] = "1"
    env.setdefault("MPLBACKEND", "Agg")
    # shards run side by side: keep library thread pools small and passive unless a
    # check asks for a thread count (checks that sweep thread counts set them at run time)
    env["OMP_NUM_THREADS"] = str(threads if threads is not None else 2)
    env["OMP_WAIT_POLICY"] = "PASSIVE"
    env["OPENBLAS_NUM_THREADS"] = "1"
    env["MKL_NUM_THREADS"] = "1"
    env.setdefault("NUMBA_NUM_THREADS", "16")
    if flavour == "asan":
        env["LD_PRELOAD"] = libasan()
        env["ASAN_OPTIONS"] = ("detect_leaks=0:abort_on_error=0:exitcode=66:"
                               "allocator_may_return_null=1:halt_on_error=1")
        env["UBSAN_OPTIONS"] = "print_stacktrace=1:halt_on_error=1"
    return env


def assert_shadow():
    """Called inside a child: make sure the imported package is the shadow one."""
    import ImageD11, ImageD11._cImageD11 as c
    sh = os.environ.get("VERIF_SHADOW")
    if not sh or not os.path.abspath(ImageD11.__file__).startswith(sh) or \
            not os.path.abspath(c.__file__).startswith(sh):
        raise BuildError("ImageD11 was not imported from the shadow package: %s %s (%s)"
                         % (ImageD11.__file__, c.__file__, sh))


if __name__ == "__main__":
    fl = sys.argv[1] if len(sys.argv) > 1 else "opt"
    t0 = time.time()
    print(ensure(fl), "%.1fs" % (time.time() - t0))
