"""Writes /verif/MANIFEST.json from the per-property descriptions below.  A property
is claimed only when its module vf/props/cNN.py exists."""
import os, json

VERIF = os.path.dirname(os.path.dirname(os.path.abspath(__file__)))

BASELINE_OFF = ("cd /repo && /venv/bin/python -m pytest -ra -q -p no:cacheprovider --timeout=900 "
                "--continue-on-collection-errors")

D = {}   # id -> dict(text, note, technique, ref)

D["C01"] = dict(
    technique="property-based differential testing (Hypothesis + exhaustive switch lattice) of C / "
              "numba / columnfile geometry against the documented Python formulas",
    text="Generated detector/diffractometer parameter sets (every on/off combination of tilts, wedge, chi, "
         "translations, omegasign, pixel-size signs and the 8 flips is enumerated) x generated peaks are pushed "
         "through the compiled, numba and columnfile routes and compared with the documented Python reference "
         "formulas at stated floating-point tolerances. Exploration: absence of a counterexample over the "
         "generated set, exhaustive only over the switch lattice.",
    note="Trusts the Python reference formulas of ImageD11/transform.py as the definition (the property names "
         "them as the reference); numpy/BLAS arithmetic.")
D["C02"] = dict(
    technique="property-based testing against physical laws (Bragg/Ewald closed forms, round trips, rigid "
              "rotation) written in the harness",
    text="Generated g-vectors (incl. blind cone and |g|>2/lambda classes), wavelengths, wedge/chi, detector "
         "geometries; oracles are closed-form laws and round trips none of which re-use ImageD11 code.",
    note="Closed-form Ewald reachability criterion derived in the harness; a 1e-9 band around the boundary "
         "is excluded and counted.")
D["C03"] = dict(
    technique="property-based testing against a brute-force lattice enumeration oracle",
    text="Generated cells (all 7 families, constructed positive volume) x centrings x d* limits: the hkl list is "
         "compared as a set with a brute-force box enumeration using the harness's own reciprocal metric and "
         "International-Tables centring rules; ring partition checked by a validity predicate.",
    note="Box bound |h_i| <= dsmax*|a_i|+1 is complete by Cauchy-Schwarz; reflections within 1e-9 of dsmax are "
         "a counted boundary band.")
D["C04"] = dict(
    technique="property-based testing against an independent Gram-matrix/Cholesky construction, plus "
              "metamorphic NaN-mask checks for the vectorised maps",
    text="Generated cell x rotation x small strain -> UBI with U, B known before ImageD11 is called; every "
         "decomposition route (grain, indexing helpers, unitcell, point_by_point, tensor_map) is compared "
         "with it and with each other; map versions with generated NaN masks.",
    note="Busing-Levy B defined as the upper-triangular Cholesky factor of the reciprocal metric tensor.")
D["C05"] = dict(
    technique="property-based testing with a known-truth oracle (simulated reflections from a known UBI; "
              "equivalence = integer unimodular relation)",
    text="Generated lattice x rotation x ring pair x hkl pair (every pair of small rings in thorough): candidate "
         "orientations must be right-handed, carry the cell, index both reflections, contain one equivalent to "
         "truth and no two equivalent candidates.",
    note="Equivalence up to lattice symmetry is decided by UBI_cand.UB_true being integer unimodular.")
D["C06"] = dict(
    technique="property-based differential testing of the C kernels against a float64 numpy reference written "
              "from the statement, with an interval oracle at the tolerance boundary",
    text="Generated UBIs, peak lists 0..1e5, tolerances, label arrays, singular selections: counts, selected "
         "set, least-squares matrix, mean error and the singular-unchanged rule are compared with the reference.",
    note="Peaks within 1e-9 relative of the tolerance boundary may fall either side (interval oracle).")
D["C07"] = dict(
    technique="property-based testing against a dense argmin reference, metamorphic over grain order and "
              "OpenMP thread count",
    text="Generated grain sets (twins, duplicates, sublattices) x peaks beyond the 4096 chunk x tolerances: labels, "
         "stored errors and per-grain counts equal the dense reference; identical for any permutation and any "
         "thread count in {1,2,3,7,16,32}.",
    note="OpenMP schedules are sampled by thread count, not enumerated; exact ties are only required to pick a minimiser.")
D["C08"] = dict(
    technique="property-based testing: soundness invariants recomputed by a reference scorer over arbitrary "
              "g-vector sets; completeness against simulated ground truth",
    text="Generated multi-grain ideal data for 8 lattice types (completeness: every grain once up to unimodular "
         "equivalence) and noisy/spurious data (soundness: recount > minpks, right-handed, cell within tolerance, "
         "uniqueness history invariant).",
    note="'Well separated' is enforced by construction (no grain indexes >10% of another's peaks).")
D["C09"] = dict(
    technique="property-based round trip through an independent forward model (ray tracing written in the "
              "harness) and the full refinement pipeline",
    text="Generated grains x generated geometry (tilts, flips, wedge, chi, omegasign, pixel signs): peaks are "
         "simulated by the harness, written to files, assigned and refined from perturbed starts; UBI, "
         "translation, labels and the saved files are compared with truth.",
    note="Tolerances 10x the worst calibration result (stated in evidence); forward model validated per case "
         "against the forward geometry path.")
D["C10"] = dict(
    technique="property-based testing against closed-form Seth-Hill tensors from the harness's own "
              "eigendecomposition; metamorphic objectivity",
    text="Generated reference cell x rotation x stretch x m: grain- and sample-frame tensors equal the closed form, "
         "are symmetric, objective, vanish for S=I, agree to first order across m; vectorised map strains equal "
         "per-grain ones.",
    note="Map paths that use Busing-Levy U instead of polar R are asserted to second order with a derived bound.")
D["C11"] = dict(
    technique="property-based differential testing against two independent connected-component references "
              "(own union-find and scipy.ndimage.label)",
    text="Generated structured images (random fills, checkerboards, combs, spirals, staircases; 2xN..512x512; "
         ">16384 provisional labels) x thresholds x connectivity x poisoned label buffers through the dense, "
         "sparse, splat, labelimage, sparse_frame and SparseScan routes: background rule, partition isomorphism, "
         "label set 1..n and returned count.",
    note="Two references are cross-checked on every small case; a disagreement between them is a harness error.")
D["C12"] = dict(
    technique="model-based property testing over generated frame histories against 3-D connected components",
    text="Generated voxel volumes with controlled topology (forks, joins, links through previous/next frame) are "
         "fed frame by frame through labelimage (and the raw kernels); output rows are matched one-to-one with "
         "3-D components and every conserved column compared.",
    note="Integer intensities keep sums exact; centroids compared at the 4-decimal print precision.")
D["C13"] = dict(
    technique="property-based testing against a steepest-ascent walk oracle; metamorphic over thread count, "
              "repeats and buffer poison",
    text="Generated tie-free images (permutations, smooth+dither, ridges) x thread counts 1..64 x repeats x "
         "poisoned buffers for dense and sparse local-maximum labelling.",
    note="Schedules are sampled (thread count x repeats on small images), not owned by the harness.")
D["C14"] = dict(
    technique="property-based round-trip and differential testing (dense Counter reference for overlaps)",
    text="Generated dense images/masks/cuts of three dtypes -> sparse -> dense; sortedness; permuted frames "
         "re-sorted; pairs of labelled frames: linear, matrix and raw-kernel overlaps equal a dense Counter.",
    note="Empty selections are excluded (library represents them as None) and counted.")
D["C15"] = dict(
    technique="property-based testing against union-find / scipy connected components and numpy add.at sums; "
              "metamorphic over numba thread count and edge order",
    text="Generated graphs (chains in adversarial order, stars, duplicates, self-loops, isolated nodes) and "
         "property tables through both find_uniq routes and pk2dmerge for numba thread counts {1,2,4,16}.",
    note="numba prange schedule is sampled by thread count.")
D["C16"] = dict(
    technique="exhaustive enumeration of group elements/products plus property-based orbit-invariance testing",
    text="All elements and ordered products of the ten named groups (closure, identity, inverses, det, integrality, "
         "order, metric preservation on generated conforming cells); generated UBIs x every pre-applied element for "
         "canonical reduction (orbit membership, invariance, idempotence, indexing unchanged); hkl reduction likewise.",
    note="Trace ties (special orientations) only require a maximiser; counted separately.")
D["C17"] = dict(
    technique="stateful model-based testing (Hypothesis RuleBasedStateMachine) against a dictionary model, plus "
              "bounded exhaustive enumeration of operation sequences",
    text="Rules cover every mutator named by the property from four initial states; the invariant after each step "
         "checks rectangularity, view aliasing (write-through probe), model equality, and storage independence of "
         "copies.  Thorough additionally enumerates all sequences to depth 4 over a fixed alphabet.",
    note="Model: ordered dict title -> list of floats.")
D["C18"] = dict(
    technique="property-based round-trip testing with precision bounds derived from the documented FORMATS table",
    text="Generated columnfiles, parameter dictionaries, grain lists and sparse frames are written and read back "
         "(text and HDF5, repeated cycles, HDF overwrite histories).",
    note="Numeric-looking strings and '-' in parameter names are documented normalisations: excluded and counted.")
D["C19"] = dict(
    technique="property-based testing of inverse pairs and metamorphic relations (linearity, worker count, ROI "
              "mask) plus simulated point-grain reconstructions",
    text="Generated positions/omega/dty/y0/ystep/shapes for all conversion pairs; generated sinograms of point "
         "grains reconstructed with the module's own shift and pad, located within 1.5 px of the prediction.",
    note="Half-step boundaries of the dty masks are counted, not asserted.")
D["C20"] = dict(
    technique="structured fuzzing of every exported kernel under an ASan+UBSan build in journaled child "
              "processes, plus a two-pattern defined-output metamorphic oracle",
    text="One structured generator per kernel concentrated on the boundary classes named by the property; any "
         "sanitizer report or crash is a violation; outputs promised by the interface must not depend on the "
         "prefill pattern of output/work buffers.",
    note="Preconditions honoured as documented in the .pyf/docstrings; libgomp itself is not instrumented.")


def build():
    checks, na = [], []
    for n in range(1, 21):
        pid = "C%02d" % n
        have = os.path.exists(os.path.join(VERIF, "vf", "props", pid.lower() + ".py"))
        d = D[pid]
        if not have:
            na.append(dict(property_id=pid, reason="check not built yet (design in DESIGN.md section 3 %s); "
                           "the technique applies" % pid))
            continue
        checks.append(dict(
            property_id=pid,
            quick_cmd="./check %s quick" % pid,
            thorough_cmd="./check %s thorough" % pid,
            evidence_file="evidence/%s.json" % pid,
            replay_cmd_template="./check %s --replay {path}" % pid,
            engine="pbt",
            level_claimed=dict(category="exploration", text=d["text"],
                               design_ref="DESIGN.md section 3, %s" % pid),
            level_note=d["note"],
            technique=d["technique"]))
    hooks = []
    hf = os.path.join(VERIF, "hooks.json")
    if os.path.exists(hf):
        hooks = json.load(open(hf)).get("source_commits", [])
    m = dict(
        version=1,
        setup_cmd="sh ./setup.sh",
        hooks=dict(guard="IMAGED11_VERIF",
                   enable="no hooks are needed: checks rebuild the C extension from /repo/src into "
                          "/verif/.build and import /repo/ImageD11 through a shadow package; "
                          "IMAGED11_VERIF is reserved and unused",
                   baseline_off_cmd=BASELINE_OFF, source_commits=hooks, add_only=True),
        engines=[dict(name="pbt", path="vf/runner.py",
                      serves_properties=[c["property_id"] for c in checks],
                      kind_free_text="Hypothesis-driven property-based testing / structured fuzzing with "
                                     "sharded subprocesses, opt and ASan+UBSan builds of the C module rebuilt "
                                     "from the working tree")],
        checks=checks,
        notes="Evidence is written by vf/runner.py on every run. known_findings.json lists fixed and known "
              "defects. VERIF_REPO selects another repository copy (used for mutant runs).",
        not_applicable=na)
    with open(os.path.join(VERIF, "MANIFEST.json"), "w") as f:
        json.dump(m, f, indent=1)
    return m


if __name__ == "__main__":
    m = build()
    print("claimed:", [c["property_id"] for c in m["checks"]])
    try:
        import jsonschema
        jsonschema.validate(m, json.load(open("/root/.vp/MANIFEST.schema.json")))
        print("manifest valid")
    except ImportError:
        pass
