"""Shared Hypothesis strategies.  Structure (shapes, kinds, switches, small
integer contents) is drawn from Hypothesis so that it shrinks; bulk array
content is derived deterministically from a drawn integer seed."""
import numpy as np
from hypothesis import strategies as st

# ---------------------------------------------------------------- binary / grey images

IMAGE_KINDS = ("random", "sparse", "full", "empty", "checker", "comb", "deepcomb", "spiral",
               "stairs", "border", "stripes", "blobs")


def build_image(kind, ns, nf, seed, fill=0.5):
    """0/1 pattern of the given kind (uint8)."""
    rng = np.random.RandomState(seed % (2 ** 32))
    if kind == "random":
        return (rng.random_sample((ns, nf)) < fill).astype(np.uint8)
    if kind == "sparse":
        return (rng.random_sample((ns, nf)) < 0.04).astype(np.uint8)
    if kind == "full":
        return np.ones((ns, nf), np.uint8)
    if kind == "empty":
        return np.zeros((ns, nf), np.uint8)
    if kind == "checker":
        return ((np.indices((ns, nf)).sum(axis=0) + seed) % 2).astype(np.uint8)
    if kind == "comb":
        c = np.zeros((ns, nf), np.uint8)
        if seed % 2:
            c[::2, :] = 1
            c[1::4, 0] = 1
            c[3::4, -1] = 1
        else:
            c[:, ::2] = 1
            c[0 if seed % 4 else -1, :] = 1
        return c
    if kind == "spiral":
        c = np.zeros((ns, nf), np.uint8)
        t, b, l, r = 0, ns - 1, 0, nf - 1
        i, j, d = 0, 0, 0
        # walls of a rectangular spiral, two pixels pitch
        while t <= b and l <= r:
            c[t, l:r + 1] = 1
            c[t:b + 1, r] = 1
            if b - t >= 2:
                c[b, l + 2 if l + 2 <= r else r:r + 1] = 1
            if r - l >= 2 and b - t >= 2:
                c[t + 2:b + 1, l + 2 if l + 2 <= r else r] = 1
            t += 2
            b -= 2
            l += 2
            r -= 2
        if seed % 2:
            c = c[::-1, ::-1].copy()
        return c
    if kind == "stairs":
        c = np.zeros((ns, nf), np.uint8)
        ii = np.arange(max(ns, nf) * 2)
        for off in range(0, nf + ns, 4):
            for k in range(ns):
                j = off - k if seed % 2 else off - ns + 1 + k
                if 0 <= j < nf:
                    c[k, j] = 1
        return c
    if kind == "border":
        c = np.zeros((ns, nf), np.uint8)
        c[0, :] = c[-1, :] = 1
        c[:, 0] = c[:, -1] = 1
        m = rng.random_sample((ns, nf)) < 0.2
        c[m] = 1
        return c
    if kind == "stripes":
        c = np.zeros((ns, nf), np.uint8)
        if seed % 2:
            c[::2] = 1
        else:
            c[:, ::2] = 1
        return c
    if kind == "deepcomb":
        # one blob whose provisional labels form a long chain of unions: vertical bars born on the same row,
        # bridged pair by pair on successively later rows (from one side to the other), then tied to a blob that was
        # born earlier; nothing below the last tie.  Four variants (mirror, bridge order) from the seed.
        c = np.zeros((ns, nf), np.uint8)
        K = min((nf - 3) // 2, (ns - 5) // 2)
        if K < 3:
            return build_image("comb", ns, nf, seed, fill)
        cols = [2 * b for b in range(K)]                 # bars
        early = 2 * K + 1                                # the column of the blob born on row 0
        last = 3 + 2 * (K - 1) + 1
        c[0:last + 1, early] = 1
        for x in cols:
            c[1:last + 1, x] = 1
        order = range(K - 1) if (seed >> 1) & 1 else range(K - 2, -1, -1)
        for step, b in enumerate(order):                 # bridge bars b and b+1 on row 3 + 2*step
            c[3 + 2 * step, cols[b] + 1] = 1
        tie = cols[-1] if (seed >> 2) & 1 else cols[0]
        lo, hi = sorted([tie, early])
        c[last, lo:hi + 1] = 1 if tie == cols[-1] else c[last, lo:hi + 1]
        if tie != cols[-1]:
            c[last - 1, cols[-1] + 1:early] = 1           # always tie through the nearest bar; which end is deepest
        if seed & 1:                                      # depends on the bridge order
            c = c[:, ::-1].copy()
        return c
    if kind == "blobs":
        c = np.zeros((ns, nf), np.uint8)
        n = 1 + rng.randint(0, 1 + (ns * nf) // 40)
        ci = rng.randint(0, ns, n)
        cj = rng.randint(0, nf, n)
        rr = rng.randint(0, 4, n)
        I, J = np.indices((ns, nf))
        for a, b, r in zip(ci, cj, rr):
            c[(I - a) ** 2 + (J - b) ** 2 <= r * r] = 1
        return c
    raise ValueError(kind)


@st.composite
def image_specs(draw, maxdim=64, mindim=2, kinds=IMAGE_KINDS):
    kind = draw(st.sampled_from(kinds))
    if kind in ("empty", "full") and draw(st.integers(0, 3)):
        kind = "random"
    shape_kind = draw(st.sampled_from(["any"] * 5 + ["thin_rows", "thin_cols", "square"]))
    if shape_kind == "thin_rows":
        ns = draw(st.integers(mindim, min(3, maxdim)))
        nf = draw(st.integers(mindim, maxdim))
    elif shape_kind == "thin_cols":
        nf = draw(st.integers(mindim, min(3, maxdim)))
        ns = draw(st.integers(mindim, maxdim))
    elif shape_kind == "square":
        ns = nf = draw(st.integers(mindim, maxdim))
    else:
        lo = min(maxdim, max(mindim, 5))
        ns = draw(st.integers(lo, maxdim))
        nf = draw(st.integers(lo, maxdim))
    seed = draw(st.integers(0, 2 ** 31 - 1))
    fill = draw(st.sampled_from([0.05, 0.3, 0.5, 0.6, 0.7, 0.95]))
    return dict(kind=kind, ns=ns, nf=nf, seed=seed, fill=fill)


def image_from_spec(spec):
    return build_image(spec["kind"], spec["ns"], spec["nf"], spec["seed"], spec["fill"])


# ---------------------------------------------------------------- rotations, cells

def quat_to_mat(q):
    q = np.asarray(q, float)
    n = np.sqrt((q * q).sum())
    if n < 1e-12:
        return np.eye(3)
    w, x, y, z = q / n
    return np.array([
        [1 - 2 * (y * y + z * z), 2 * (x * y - z * w), 2 * (x * z + y * w)],
        [2 * (x * y + z * w), 1 - 2 * (x * x + z * z), 2 * (y * z - x * w)],
        [2 * (x * z - y * w), 2 * (y * z + x * w), 1 - 2 * (x * x + y * y)]])


def rotation_from_seed(seed):
    rng = np.random.RandomState(seed % (2 ** 32))
    return quat_to_mat(rng.standard_normal(4))


unit_floats = st.floats(-1, 1, allow_nan=False, allow_infinity=False, width=64)


@st.composite
def rotations(draw):
    """Uniformly distributed rotations (normalised Gaussian quaternion via seed)
    mixed with special ones (identity, axis aligned, small angle)."""
    kind = draw(st.sampled_from(["uniform"] * 6 + ["identity", "axis90", "small"]))
    if kind == "identity":
        return np.eye(3)
    if kind == "axis90":
        ax = draw(st.integers(0, 2))
        k = draw(st.integers(1, 3))
        q = np.zeros(4)
        q[0] = np.cos(k * np.pi / 4)
        q[1 + ax] = np.sin(k * np.pi / 4)
        return quat_to_mat(q)
    seed = draw(st.integers(0, 2 ** 31 - 1))
    R = rotation_from_seed(seed)
    if kind == "small":
        rng = np.random.RandomState(seed)
        v = rng.standard_normal(3) * 1e-3
        q = np.array([1.0, v[0], v[1], v[2]])
        return quat_to_mat(q)
    return R


def cell_volume_ok(a, b, c, al, be, ga, minvol=0.1):
    ca, cb, cg = [np.cos(np.radians(x)) for x in (al, be, ga)]
    v2 = 1 - ca * ca - cb * cb - cg * cg + 2 * ca * cb * cg
    return v2 > minvol ** 2


FAMILIES = ("cubic", "tetragonal", "orthorhombic", "hexagonal", "rhombohedral",
            "monoclinic", "triclinic")


@st.composite
def cells(draw, families=FAMILIES, lo=2.0, hi=30.0, amin=55.0, amax=125.0):
    """Cell parameters [a,b,c,alpha,beta,gamma]; triclinic angles are constructed
    so the volume is positive (gamma is drawn inside its admissible interval)."""
    fam = draw(st.sampled_from(families))
    L = st.floats(lo, hi, allow_nan=False, width=64)
    A = st.floats(amin, amax, allow_nan=False, width=64)
    a = draw(L)
    if fam == "cubic":
        return fam, [a, a, a, 90., 90., 90.]
    if fam == "tetragonal":
        return fam, [a, a, draw(L), 90., 90., 90.]
    if fam == "orthorhombic":
        return fam, [a, draw(L), draw(L), 90., 90., 90.]
    if fam == "hexagonal":
        return fam, [a, a, draw(L), 90., 90., 120.]
    if fam == "rhombohedral":
        al = draw(st.floats(amin, min(amax, 118.0), allow_nan=False, width=64))
        return fam, [a, a, a, al, al, al]
    if fam == "monoclinic":
        return fam, [a, draw(L), draw(L), 90., draw(A), 90.]
    if fam == "pseudo":
        # a cell of a special family, strained a little: angles 1e-6..1e-2 degrees and lengths 1e-8..1e-3 (relative)
        # away from the special values - what a refined grain of a cubic/tetragonal/hexagonal phase looks like
        base = draw(st.sampled_from(["cubic", "tetragonal", "orthorhombic", "hexagonal"]))
        b, c = (a, a) if base == "cubic" else ((a, draw(L)) if base in ("tetragonal", "hexagonal") else (draw(L), draw(L)))
        ang = [90., 90., 120. if base == "hexagonal" else 90.]
        E = st.sampled_from([0.0, 1e-6, 1e-5, 1e-4, 5e-4, 9e-4, 2e-3, 1e-2])
        S = st.sampled_from([-1.0, 1.0])
        ang = [x + draw(S) * draw(E) for x in ang]
        R = st.sampled_from([0.0, 1e-8, 1e-6, 1e-4, 1e-3])
        return fam, [a * (1 + draw(S) * draw(R)), b * (1 + draw(S) * draw(R)), c * (1 + draw(S) * draw(R))] + ang
    # triclinic: need cos(al+be) < cos(ga) < cos(al-be) (positive Gram determinant)
    al = draw(A)
    be = draw(A)
    lo_g = max(amin, abs(al - be) + 3.0)
    hi_g = min(amax, min(al + be, 360.0 - al - be) - 3.0)
    if hi_g <= lo_g:           # cannot happen for al,be in [55,125] but stay safe
        return fam, [a, draw(L), draw(L), al, be, 90.0]
    ga = draw(st.floats(lo_g, hi_g, allow_nan=False, width=64))
    return fam, [a, draw(L), draw(L), al, be, ga]


def cosd(x):
    """cosine of an angle in degrees, exact at 60, 90 and 120 (cos(radians(90)) is 6e-17, which would put 1e-17 into
    places of a matrix that are exactly zero for a rectangular cell)"""
    return {60.0: 0.5, 90.0: 0.0, 120.0: -0.5}.get(float(x), np.cos(np.radians(x)))


def gram(cell):
    a, b, c, al, be, ga = cell
    ca, cb, cg = [cosd(x) for x in (al, be, ga)]
    return np.array([[a * a, a * b * cg, a * c * cb],
                     [a * b * cg, b * b, b * c * ca],
                     [a * c * cb, b * c * ca, c * c]])


def busing_levy_B(cell):
    """Independent construction: B is the upper triangular Cholesky factor of the
    reciprocal metric tensor G* = inv(G) (B^T B = G*, positive diagonal)."""
    Gs = np.linalg.inv(gram(cell))
    L = np.linalg.cholesky(Gs)     # Gs = L L^T, L lower
    return L.T                     # B = L^T is upper triangular, B^T B = Gs


# ---------------------------------------------------------------- sparse scans on disk

def write_sparse_scan(path, frames, shape, omega=None, dty=None, scan="1.1"):
    """Write the HDF5 layout ImageD11.sparseframe.SparseScan reads (as produced by the segmenter): one group per scan
    with attributes nframes/shape0/shape1 and concatenated nnz,row,col,intensity datasets.  frames = list of
    (row, col, intensity) arrays."""
    import h5py, os
    try:
        os.remove(path)
    except OSError:
        pass
    with h5py.File(path, "w") as h:
        g = h.create_group(scan)
        g.attrs["nframes"] = len(frames)
        g.attrs["shape0"] = int(shape[0])
        g.attrs["shape1"] = int(shape[1])
        g["nnz"] = np.array([len(f[0]) for f in frames], np.uint32)
        cat = lambda k, dt: np.concatenate([np.asarray(f[k]) for f in frames]).astype(dt) if frames else np.zeros(0, dt)
        g["row"] = cat(0, np.uint16)
        g["col"] = cat(1, np.uint16)
        g["intensity"] = cat(2, np.float32)
        if omega is not None:
            g["measurement/rot_center"] = np.asarray(omega, float)
        if dty is not None:
            g["measurement/dty_center"] = np.asarray(dty, float)
    return path


def read_sparse_scan(path, scan="1.1", **kw):
    from ImageD11 import sparseframe
    return sparseframe.SparseScan(path, scan, **kw)
