"""Reference models that share no code with ImageD11."""
import numpy as np


# ---------------------------------------------------------------- union find

class DSU(object):
    def __init__(self, n):
        self.p = list(range(n))

    def find(self, x):
        p = self.p
        r = x
        while p[r] != r:
            r = p[r]
        while p[x] != r:
            p[x], x = r, p[x]
        return r

    def union(self, a, b):
        ra, rb = self.find(a), self.find(b)
        if ra != rb:
            if ra < rb:
                self.p[rb] = ra
            else:
                self.p[ra] = rb


def components_2d(mask, con8=True):
    """Own union-find labelling of a boolean image. Returns int array (0 bg,
    1..n in raster order of first pixel) and n."""
    mask = np.asarray(mask, bool)
    ns, nf = mask.shape
    idx = -np.ones((ns, nf), int)
    pts = np.argwhere(mask)
    idx[mask] = np.arange(len(pts))
    d = DSU(len(pts))
    if con8:
        nbrs = ((0, -1), (-1, -1), (-1, 0), (-1, 1))
    else:
        nbrs = ((0, -1), (-1, 0))
    for n, (i, j) in enumerate(pts):
        for di, dj in nbrs:
            a, b = i + di, j + dj
            if 0 <= a < ns and 0 <= b < nf and idx[a, b] >= 0:
                d.union(n, idx[a, b])
    roots = np.array([d.find(k) for k in range(len(pts))], int)
    uniq, inv = np.unique(roots, return_inverse=True)
    out = np.zeros((ns, nf), int)
    out[mask] = inv + 1
    return out, len(uniq)


def components_scipy(mask, con8=True):
    from scipy import ndimage
    s = np.ones((3, 3), int) if con8 else np.array([[0, 1, 0], [1, 1, 1], [0, 1, 0]])
    return ndimage.label(mask, structure=s)


def same_partition(a, b):
    """Do two label images (0 = background) induce the same partition of the same
    foreground pixels?"""
    a = np.asarray(a)
    b = np.asarray(b)
    if a.shape != b.shape:
        return False
    ma, mb = a > 0, b > 0
    if (ma != mb).any():
        return False
    if not ma.any():
        return True
    pa = a[ma].astype(np.int64)
    pb = b[ma].astype(np.int64)
    pairs = np.unique(np.stack([pa, pb], 1), axis=0)
    return len(pairs) == len(np.unique(pairs[:, 0])) == len(np.unique(pairs[:, 1]))


def graph_components(n, ei, ej):
    """Union-find over n nodes and edges (ei[k], ej[k]); returns canonical labels
    0..m-1 numbered by smallest member."""
    d = DSU(n)
    for a, b in zip(np.asarray(ei).tolist(), np.asarray(ej).tolist()):
        d.union(a, b)
    roots = np.array([d.find(k) for k in range(n)], int)
    uniq, inv = np.unique(roots, return_inverse=True)
    return inv, len(uniq)


# ---------------------------------------------------------------- lattice helpers

def lattice_errors(ubi, gv):
    """|UBI.g - round(UBI.g)|^2 per peak (float64, rint ties to even are avoided by
    the generators)."""
    h = np.dot(np.asarray(ubi, float), np.asarray(gv, float).T)
    d = h - np.rint(h)
    return (d * d).sum(axis=0), np.rint(h).T


def is_unimodular(M, tol=1e-6):
    R = np.rint(M)
    return np.abs(M - R).max() < tol and abs(abs(np.linalg.det(R)) - 1) < 1e-9


def cellpars_from_ubi(ubi):
    """Own computation of cell parameters from real-space row vectors."""
    ubi = np.asarray(ubi, float)
    G = np.dot(ubi, ubi.T)
    a, b, c = np.sqrt(np.diag(G))
    al = np.degrees(np.arccos(G[1, 2] / b / c))
    be = np.degrees(np.arccos(G[0, 2] / a / c))
    ga = np.degrees(np.arccos(G[0, 1] / a / b))
    return np.array([a, b, c, al, be, ga])
