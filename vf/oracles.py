"""Reference models that share no code with ImageD11."""
import numpy as np


# ---------------------------------------------------------------- union find

class DSU(object):
    def __init__(self, n):
        self.p = list(range(n))

    def find(self, x):
        p = self.p
        r = x
        while p[r] != r:
            r = p[r]
        while p[x] != r:
            p[x], x = r, p[x]
        return r

    def union(self, a, b):
        ra, rb = self.find(a), self.find(b)
        if ra != rb:
            if ra < rb:
                self.p[rb] = ra
            else:
                self.p[ra] = rb


def components_2d(mask, con8=True):
    """Own union-find labelling of a boolean image. Returns int array (0 bg,
    1..n in raster order of first pixel) and n."""
    mask = np.asarray(mask, bool)
    ns, nf = mask.shape
    idx = -np.ones((ns, nf), int)
    pts = np.argwhere(mask)
    idx[mask] = np.arange(len(pts))
    d = DSU(len(pts))
    if con8:
        nbrs = ((0, -1), (-1, -1), (-1, 0), (-1, 1))
    else:
        nbrs = ((0, -1), (-1, 0))
    for n, (i, j) in enumerate(pts):
        for di, dj in nbrs:
            a, b = i + di, j + dj
            if 0 <= a < ns and 0 <= b < nf and idx[a, b] >= 0:
                d.union(n, idx[a, b])
    roots = np.array([d.find(k) for k in range(len(pts))], int)
    uniq, inv = np.unique(roots, return_inverse=True)
    out = np.zeros((ns, nf), int)
    out[mask] = inv + 1
    return out, len(uniq)


def components_scipy(mask, con8=True):
    from scipy import ndimage
    s = np.ones((3, 3), int) if con8 else np.array([[0, 1, 0], [1, 1, 1], [0, 1, 0]])
    return ndimage.label(mask, structure=s)


def same_partition(a, b):
    """Do two label images (0 = background) induce the same partition of the same
    foreground pixels?"""
    a = np.asarray(a)
    b = np.asarray(b)
    if a.shape != b.shape:
        return False
    ma, mb = a > 0, b > 0
    if (ma != mb).any():
        return False
    if not ma.any():
        return True
    pa = a[ma].astype(np.int64)
    pb = b[ma].astype(np.int64)
    pairs = np.unique(np.stack([pa, pb], 1), axis=0)
    return len(pairs) == len(np.unique(pairs[:, 0])) == len(np.unique(pairs[:, 1]))


def graph_components(n, ei, ej):
    """Union-find over n nodes and edges (ei[k], ej[k]); returns canonical labels
    0..m-1 numbered by smallest member."""
    d = DSU(n)
    for a, b in zip(np.asarray(ei).tolist(), np.asarray(ej).tolist()):
        d.union(a, b)
    roots = np.array([d.find(k) for k in range(n)], int)
    uniq, inv = np.unique(roots, return_inverse=True)
    return inv, len(uniq)


# ---------------------------------------------------------------- lattice helpers

def lattice_errors(ubi, gv):
    """|UBI.g - round(UBI.g)|^2 per peak (float64, rint ties to even are avoided by
    the generators)."""
    h = np.dot(np.asarray(ubi, float), np.asarray(gv, float).T)
    d = h - np.rint(h)
    return (d * d).sum(axis=0), np.rint(h).T


def is_unimodular(M, tol=1e-6):
    R = np.rint(M)
    return np.abs(M - R).max() < tol and abs(abs(np.linalg.det(R)) - 1) < 1e-9


def cellpars_from_ubi(ubi):
    """Own computation of cell parameters from real-space row vectors."""
    ubi = np.asarray(ubi, float)
    G = np.dot(ubi, ubi.T)
    a, b, c = np.sqrt(np.diag(G))
    al = np.degrees(np.arccos(G[1, 2] / b / c))
    be = np.degrees(np.arccos(G[0, 2] / a / c))
    ga = np.degrees(np.arccos(G[0, 1] / a / b))
    return np.array([a, b, c, al, be, ga])


# ---------------------------------------------------------------- diffraction geometry
# Written from the documentation of ImageD11 (docs + docstrings of transform.py): lab frame x along
# the beam, y towards the door, z up; g = R(omega).C(chi).W(wedge).k ; no code shared with ImageD11.

def rot_x(a):
    c, s = np.cos(a), np.sin(a)
    return np.array([[1, 0, 0], [0, c, -s], [0, s, c]], float)


def rot_y(a):
    c, s = np.cos(a), np.sin(a)
    return np.array([[c, 0, s], [0, 1, 0], [-s, 0, c]], float)


def rot_z(a):
    c, s = np.cos(a), np.sin(a)
    return np.array([[c, -s, 0], [s, c, 0], [0, 0, 1]], float)


def geo_detector_rotation(p):
    return rot_x(p["tilt_x"]) @ rot_y(p["tilt_y"]) @ rot_z(p["tilt_z"])


def geo_xyz_lab(sc, fc, p):
    """lab coordinates (3,n) of detector positions (slow, fast)."""
    z = (np.asarray(sc, float) - p["z_center"]) * p["z_size"]
    y = (np.asarray(fc, float) - p["y_center"]) * p["y_size"]
    f0 = p["o11"] * z + p["o12"] * y
    f1 = p["o21"] * z + p["o22"] * y
    vec = np.array([np.zeros_like(f0), f1, f0])
    out = geo_detector_rotation(p) @ vec
    out[0] += p["distance"]
    return out


def geo_W(wedge_deg):
    return rot_y(np.radians(wedge_deg))           # W = [[c,0,s],[0,1,0],[-s,0,c]]


def geo_C(chi_deg):
    return rot_x(-np.radians(chi_deg))            # C = [[1,0,0],[0,c,s],[0,-s,c]]


def geo_grain_origins(omega_eff_deg, p, t):
    """position of the grain (3,n) in the lab for each peak: W^-1 C^-1 R^-1 t"""
    om = np.radians(np.asarray(omega_eff_deg, float))
    t = np.asarray(t, float)
    v = np.array([np.cos(om) * t[0] - np.sin(om) * t[1],
                  np.sin(om) * t[0] + np.cos(om) * t[1],
                  np.full(om.shape, t[2])])
    return geo_W(p["wedge"]).T @ (geo_C(p["chi"]).T @ v)


def geo_tth_eta(s1):
    eta = np.degrees(np.arctan2(-s1[1], s1[2]))
    tth = np.degrees(np.arctan2(np.hypot(s1[1], s1[2]), s1[0]))
    return tth, eta


def geo_k(tth_deg, eta_deg, wvln):
    th = np.radians(tth_deg) / 2
    eta = np.radians(eta_deg)
    ds = 2 * np.sin(th) / wvln
    return np.array([-ds * np.sin(th), -ds * np.cos(th) * np.sin(eta), ds * np.cos(th) * np.cos(eta)])


def geo_g_from_k(k, omega_eff_deg, p):
    om = np.radians(np.asarray(omega_eff_deg, float))
    kk = geo_C(p["chi"]) @ (geo_W(p["wedge"]) @ k)
    return np.array([np.cos(om) * kk[0] + np.sin(om) * kk[1],
                     -np.sin(om) * kk[0] + np.cos(om) * kk[1],
                     kk[2]])


def geo_forward(sc, fc, omega_deg, p, t=(0, 0, 0)):
    """everything for a set of peaks: dict with xyz (3,n), tth, eta, k, g (3,n), ds"""
    om = np.asarray(omega_deg, float) * p.get("omegasign", 1.0)
    xyz = geo_xyz_lab(sc, fc, p)
    s1 = xyz - geo_grain_origins(om, p, t)
    tth, eta = geo_tth_eta(s1)
    k = geo_k(tth, eta, p["wavelength"])
    g = geo_g_from_k(k, om, p)
    return dict(xyz=xyz, tth=tth, eta=eta, k=k, g=g, ds=np.sqrt((g * g).sum(axis=0)))


def eta_diff(a, b):
    return (np.asarray(a) - np.asarray(b) + 180.0) % 360.0 - 180.0


def geo_simulate(g, p, t=(0, 0, 0), origin=None):
    """Independent forward model: for g-vectors (3,n) in the sample frame return, for both
    omega solutions, detector positions.  Returns dict of arrays of shape (2,n):
    sc, fc, omega (as observed, i.e. divided by omegasign), ok (diffracts and hits the detector plane
    in the forward direction)."""
    g = np.asarray(g, float)
    n = g.shape[1]
    wv = p["wavelength"]
    a = geo_C(p["chi"]) @ (geo_W(p["wedge"]) @ np.array([1.0, 0, 0]))
    A = a[0] * g[0] + a[1] * g[1]
    B = a[1] * g[0] - a[0] * g[1]
    T = -wv * (g * g).sum(axis=0) / 2 - a[2] * g[2]
    den = np.hypot(A, B)
    with np.errstate(divide="ignore", invalid="ignore"):
        q = T / den
    can = (den > 0) & (np.abs(q) < 1)
    qq = np.where(can, q, 0.0)
    base = np.arctan2(B, A)
    P0 = geo_xyz_lab([0.0], [0.0], p)[:, 0]
    dS = geo_xyz_lab([1.0], [0.0], p)[:, 0] - P0
    dF = geo_xyz_lab([0.0], [1.0], p)[:, 0] - P0
    out = dict(sc=np.zeros((2, n)), fc=np.zeros((2, n)), omega=np.zeros((2, n)), ok=np.zeros((2, n), bool))
    for k, sgn in enumerate((1.0, -1.0)):
        om = base + sgn * np.arccos(qq)                       # effective omega, radians
        c, s = np.cos(om), np.sin(om)
        qv = np.array([c * g[0] - s * g[1], s * g[0] + c * g[1], g[2]])     # Rz(om).g
        kv = geo_W(p["wedge"]).T @ (geo_C(p["chi"]).T @ qv)
        sdir = kv * wv
        sdir[0] += 1.0                                        # unit vector along the scattered beam
        omdeg = np.degrees(om)
        # origin(omega_deg) -> (3,n) overrides the rigid-body origin (scanning: the voxel is brought into the beam)
        org = geo_grain_origins(omdeg, p, t) if origin is None else np.asarray(origin(omdeg), float)
        # intersect org + r*sdir with the plane P0 + s*dS + f*dF
        nrm = np.cross(dS, dF)
        denom = nrm @ sdir
        with np.errstate(divide="ignore", invalid="ignore"):
            r = (nrm @ (P0[:, None] - org)) / denom
        hit = org + r * sdir - P0[:, None]
        M = np.array([dS, dF]).T                              # 3x2
        sf = np.linalg.lstsq(M, hit, rcond=None)[0]
        out["sc"][k] = sf[0]
        out["fc"][k] = sf[1]
        out["omega"][k] = omdeg / p.get("omegasign", 1.0)
        out["ok"][k] = can & np.isfinite(r) & (r > 0)
    return out
