"""Shared runner: shards, seeds, evidence, VIOLATION / KNOWN-FINDING protocol.

Parent:   python -m vf.runner <ID> quick|thorough            (via ./check)
          python -m vf.runner <ID> --replay <file>
Child:    python -m vf.runner --shard <ID> <tier> <k> <n> <outfile>

Exit status: 0 property held on everything explored (KNOWN-FINDING lines allowed),
             1 at least one VIOLATION line printed,
             2 harness error (build failure, import error, health check, bug in a check).
"""
from __future__ import print_function
import os, sys, json, time, hashlib, importlib, subprocess, traceback, base64, io, zlib

VERIF = os.path.dirname(os.path.dirname(os.path.abspath(__file__)))
TMPROOT = os.path.join(VERIF, ".build", "tmp")
ASAN_EXIT = 66
HANG_EXIT = 67          # a call of the code under test did not return (see guard_deadline)

# --------------------------------------------------------------------------- encoding


def enc(obj):
    """JSON-able encoding of cases (numpy arrays, tuples, bytes)."""
    import numpy as np
    if isinstance(obj, np.ndarray):
        if obj.size <= 64 and obj.dtype.kind in "iufb":
            return {"__nd__": str(obj.dtype), "shape": list(obj.shape),
                    "data": obj.ravel().tolist()}
        buf = io.BytesIO()
        np.save(buf, np.ascontiguousarray(obj), allow_pickle=False)
        return {"__npy__": base64.b64encode(zlib.compress(buf.getvalue())).decode()}
    if isinstance(obj, (np.integer,)):
        return int(obj)
    if isinstance(obj, (np.floating,)):
        return enc(float(obj))
    if isinstance(obj, (np.bool_,)):
        return bool(obj)
    if isinstance(obj, float):
        if obj != obj or obj in (float("inf"), float("-inf")):
            return {"__f__": repr(obj)}
        return obj
    if isinstance(obj, dict):
        return {str(k): enc(v) for k, v in obj.items()}
    if isinstance(obj, tuple):
        return {"__t__": [enc(v) for v in obj]}
    if isinstance(obj, (list,)):
        return [enc(v) for v in obj]
    if isinstance(obj, bytes):
        return {"__b__": base64.b64encode(obj).decode()}
    return obj


def dec(obj):
    import numpy as np
    if isinstance(obj, dict):
        if "__nd__" in obj:
            return np.array(obj["data"], dtype=obj["__nd__"]).reshape(obj["shape"])
        if "__npy__" in obj:
            return np.load(io.BytesIO(zlib.decompress(base64.b64decode(obj["__npy__"]))),
                           allow_pickle=False)
        if "__f__" in obj:
            return float(obj["__f__"])
        if "__t__" in obj:
            return tuple(dec(v) for v in obj["__t__"])
        if "__b__" in obj:
            return base64.b64decode(obj["__b__"])
        return {k: dec(v) for k, v in obj.items()}
    if isinstance(obj, list):
        return [dec(v) for v in obj]
    return obj


def brief(obj, maxlen=400):
    """Abbreviated, human readable rendering of a case for evidence samples."""
    import numpy as np
    if isinstance(obj, np.ndarray):
        if obj.size <= 12:
            return {"array": obj.tolist(), "dtype": str(obj.dtype)}
        flat = obj.ravel()
        return {"array_shape": list(obj.shape), "dtype": str(obj.dtype),
                "head": flat[:6].tolist()}
    if isinstance(obj, dict):
        return {str(k): brief(v) for k, v in obj.items()}
    if isinstance(obj, (list, tuple)):
        if len(obj) > 12:
            return [brief(v) for v in obj[:8]] + ["... %d more" % (len(obj) - 8)]
        return [brief(v) for v in obj]
    if isinstance(obj, (np.integer,)):
        return int(obj)
    if isinstance(obj, (np.floating,)):
        return float(obj)
    if isinstance(obj, (np.bool_,)):
        return bool(obj)
    if isinstance(obj, float) and (obj != obj or abs(obj) == float("inf")):
        return repr(obj)
    if isinstance(obj, bytes):
        return obj[:32].hex()
    if isinstance(obj, str) and len(obj) > maxlen:
        return obj[:maxlen] + "..."
    return obj


def casehash(obj):
    return int(hashlib.sha1(json.dumps(enc(obj), sort_keys=True, default=str).encode())
               .hexdigest()[:15], 16)


def derive_seed(*parts):
    h = hashlib.sha256("|".join(str(p) for p in parts).encode()).hexdigest()
    return int(h[:12], 16)

# --------------------------------------------------------------------------- known findings


def load_known(pid):
    path = os.path.join(VERIF, "known_findings.json")
    if not os.path.exists(path):
        return []
    with open(path) as f:
        data = json.load(f)
    return [e for e in data.get("findings", [])
            if e.get("property") == pid and e.get("status") == "known"]


def match_known(entry, failure):
    """entry['signature'] is a dict: every key must equal the failure's value
    (failure['kind'] and failure['sig'][key])."""
    sig = entry.get("signature", {})
    if not sig:
        return False
    fsig = dict(failure.get("sig", {}))
    fsig["kind"] = failure.get("kind")
    for k, v in sig.items():
        if fsig.get(k) != v:
            return False
    return True

# --------------------------------------------------------------------------- recorder (child side)


class HarnessError(Exception):
    pass


class Violation(Exception):
    pass


class Recorder(object):
    MAXSAMPLES = 4

    def __init__(self, pid, tier, seed, shard, nshards, outfile):
        self.pid, self.tier, self.seed = pid, tier, seed
        self.shard, self.nshards, self.outfile = shard, nshards, outfile
        self.evaluations = 0
        self.nt = set()
        self.classes = {}
        self.samples = []
        self.nt_samples = []
        self.excluded = {}
        self.known_hits = {}
        self.violations = []
        self.notes = {}
        self.known = load_known(pid)
        self.journal_path = outfile + ".journal"
        self._jf = None
        self.t0 = time.time()

    # -- counting
    def case(self, case, nontrivial, classes=(), key=None):
        self.evaluations += 1
        if self.evaluations % 250 == 0 and self._jf is not None:
            self.flush()          # journaled (crash-prone) shards: keep the counts if the child is killed
        for c in classes:
            self.classes[c] = self.classes.get(c, 0) + 1
        if nontrivial:
            h = key if key is not None else casehash(case)
            if h not in self.nt:
                self.nt.add(h)
                if len(self.nt_samples) < self.MAXSAMPLES:
                    self.nt_samples.append(brief(case))
        elif len(self.samples) < 2:
            self.samples.append(brief(case))

    def count(self, n=1, classes=()):
        """evaluations that are not individually hashed (bulk inner loops)."""
        self.evaluations += n
        for c in classes:
            self.classes[c] = self.classes.get(c, 0) + n

    def exclude(self, reason, n=1):
        self.excluded[reason] = self.excluded.get(reason, 0) + n

    def note(self, key, value, how="sum"):
        if how == "sum":
            self.notes[key] = self.notes.get(key, 0) + value
        elif how == "max":
            self.notes[key] = max(self.notes.get(key, value), value)
        elif how == "min":
            self.notes[key] = min(self.notes.get(key, value), value)
        else:
            self.notes[key] = value
        self.notes.setdefault("__how__", {})[key] = how

    # -- journal (write-before-call, for crashing kernels)
    def journal(self, sub, case):
        if self._jf is None:
            self._jf = open(self.journal_path, "w")
        self._jf.seek(0)
        self._jf.truncate()
        json.dump({"sub": sub, "case": enc(case)}, self._jf)
        self._jf.flush()

    # -- failures
    def filter_known(self, failures):
        unknown = []
        for f in failures:
            hit = None
            for e in self.known:
                if match_known(e, f):
                    hit = e
                    break
            if hit is None:
                unknown.append(f)
            else:
                self.known_hits[hit["id"]] = self.known_hits.get(hit["id"], 0) + 1
        return unknown

    def violation(self, sub, case, failures, flaky=False):
        self.violations.append({"sub": sub, "case": enc(case),
                                "failures": [enc(f) for f in failures],
                                "flaky": flaky})
        self.flush()

    def flush(self):
        how = self.notes.get("__how__", {})
        out = dict(pid=self.pid, shard=self.shard, evaluations=self.evaluations,
                   nt=sorted(self.nt), classes=self.classes,
                   samples=self.nt_samples + self.samples, excluded=self.excluded,
                   known_hits=self.known_hits, violations=self.violations,
                   notes={k: v for k, v in self.notes.items() if k != "__how__"},
                   how=how, wall_s=time.time() - self.t0)
        tmp = self.outfile + ".tmp"
        with open(tmp, "w") as f:
            json.dump(out, f, default=str)
        os.replace(tmp, self.outfile)


# --------------------------------------------------------------------------- hypothesis driver


def hyp_run(rec, sub, strategy, check, max_examples, shrink=None, nsteps=None):
    """Drive `check(case) -> list[failure]` with Hypothesis.  A failure is a dict
    {kind, detail, sig?}.  Unknown failures make the example fail (and shrink);
    failures matching a `known` entry are counted and the search continues."""
    import hypothesis
    from hypothesis import given, settings, HealthCheck, Phase, seed as hseed
    from hypothesis import errors as herr
    if shrink is None:
        shrink = True
    if rec.tier == "thorough":
        # per-property depth of the thorough tier (THOROUGH_SCALE in the property module), and a global knob
        max_examples = max(1, int(max_examples * getattr(rec, "scale", 1.0) * float(os.environ.get("VERIF_DEPTH", "1") or 1)))
    phases = [Phase.explicit, Phase.generate, Phase.target]
    if shrink:
        phases.append(Phase.shrink)
    holder = {}

    def body(case):
        fails = run_check_fn(check, case)
        unknown = rec.filter_known(fails) if fails else []
        if unknown:
            holder["case"], holder["fails"] = case, unknown
            raise Violation(unknown[0].get("kind", "?"))

    test = given(strategy)(body)
    test = settings(max_examples=max_examples, database=None, deadline=None,
                    derandomize=False, report_multiple_bugs=False, phases=phases,
                    suppress_health_check=list(HealthCheck),
                    print_blob=False)(test)
    test = hseed(derive_seed(rec.seed, rec.pid, rec.shard, sub))(test)
    try:
        test()
    except Violation:
        rec.violation(sub, holder["case"], holder["fails"])
        return False
    except herr.Flaky:
        # a schedule dependent failure was seen at least once: it is real
        if "case" in holder:
            rec.violation(sub, holder["case"], holder["fails"], flaky=True)
            return False
        raise
    except BaseException as e:
        # hypothesis may wrap; if our Violation is the cause, report it
        if "case" in holder and isinstance(getattr(e, "__cause__", None), Violation):
            rec.violation(sub, holder["case"], holder["fails"])
            return False
        raise
    return True


def hyp_stateful(rec, sub, machine_cls, holder, max_examples, steps, shrink=True):
    """Drive a RuleBasedStateMachine.  The machine stores the failing history in
    holder['case'] / holder['fails'] and raises Violation."""
    from hypothesis import settings, HealthCheck, Phase, seed as hseed
    from hypothesis import errors as herr
    from hypothesis.stateful import run_state_machine_as_test
    phases = [Phase.explicit, Phase.generate, Phase.target] + ([Phase.shrink] if shrink else [])
    st_ = settings(max_examples=max_examples, stateful_step_count=steps, database=None,
                   deadline=None, derandomize=False, report_multiple_bugs=False, phases=phases,
                   suppress_health_check=list(HealthCheck), print_blob=False)
    m = hseed(derive_seed(rec.seed, rec.pid, rec.shard, sub))(machine_cls)
    holder.clear()
    try:
        run_state_machine_as_test(m, settings=st_)
    except Violation:
        rec.violation(sub, holder["case"], holder["fails"])
        return False
    except herr.Flaky:
        if "case" in holder:
            rec.violation(sub, holder["case"], holder["fails"], flaky=True)
            return False
        raise
    except BaseException as e:
        if "case" in holder and isinstance(getattr(e, "__cause__", None), Violation):
            rec.violation(sub, holder["case"], holder["fails"])
            return False
        raise
    return True


def _in_code_under_test(e):
    """True when the traceback of e passes through the ImageD11 package (shadow or repo)."""
    marks = [os.environ.get("VERIF_SHADOW") or "\0", os.environ.get("VERIF_REPO") or "\0"]
    for fr in traceback.extract_tb(e.__traceback__):
        fn = fr.filename
        if any(fn.startswith(m) for m in marks) or (os.sep + "ImageD11" + os.sep) in fn:
            return True
    return False


def run_check_fn(check, case):
    """Run a property's check; an exception that escapes from inside the code under test on a
    well-formed call is a failure of the property, one raised by the harness itself is a harness error."""
    try:
        return check(case)
    except (Violation, HarnessError, KeyboardInterrupt, MemoryError):
        raise
    except Exception as e:   # noqa
        if _in_code_under_test(e):
            return [exc_failure("unguarded call", e)]
        raise


def run_cases(rec, sub, cases, check, stop_after=3):
    """Deterministic (enumerated / pinned) cases: same failure protocol as hyp_run."""
    nv = 0
    for case in cases:
        fails = run_check_fn(check, case)
        unknown = rec.filter_known(fails) if fails else []
        if unknown:
            rec.violation(sub, case, unknown)
            nv += 1
            if nv >= stop_after:
                break
    return nv == 0


def snapshot(**arrays):
    """copies of the inputs of a check; `written(snap, **arrays)` lists the ones that differ afterwards"""
    import numpy as _np
    return {k: _np.array(v, copy=True) for k, v in arrays.items()}


def written(snap, **arrays):
    import numpy as _np
    out = []
    for k, v in arrays.items():
        a, b = _np.asarray(v), snap[k]
        same = a.shape == b.shape and (_np.array_equal(a, b, equal_nan=True) if a.dtype.kind == "f" else _np.array_equal(a, b))
        if not same:
            out.append(k)
    return out


def guard(fn, *a, **k):
    """Call code under test; returns (True, result) or (False, exception)."""
    try:
        return True, fn(*a, **k)
    except Exception as e:   # noqa
        return False, e


def guard_deadline(rec, sub, case, seconds, fn, *a, **k):
    """guard() for calls that start threads of their own (a worker that dies leaves the others waiting for ever): the
    call runs in a thread; when it has not returned after `seconds` - hundreds of times what it takes on the unchanged
    tree - the case is written next to the shard's output and the shard ends with HANG_EXIT; the supervisor reports
    the case as a failure of kind "hang".  Without a recorder (replay) the failure is returned."""
    import threading
    box = {}

    def run():
        try:
            box["r"] = (True, fn(*a, **k))
        except Exception as e:      # noqa
            box["r"] = (False, e)
    t = threading.Thread(target=run, daemon=True)
    t.start()
    t.join(seconds)
    if "r" in box:
        return box["r"]
    if rec is None:
        return False, RuntimeError("the call did not return within %d s" % seconds)
    with open(rec.journal_path[:-len(".journal")] + ".hang", "w") as f:
        json.dump({"sub": sub, "case": enc(case), "seconds": seconds}, f)
    rec.flush()
    sys.stdout.flush()
    os._exit(HANG_EXIT)


def fail(kind, detail, **sig):
    return {"kind": kind, "detail": detail if isinstance(detail, str) else repr(detail),
            "sig": sig}


def exc_failure(where, e):
    tb = traceback.extract_tb(e.__traceback__)
    last = tb[-1] if tb else None
    loc = "%s:%s" % (os.path.basename(last.filename), last.name) if last else "?"
    return fail("exception", "%s raised %s: %s at %s" % (where, type(e).__name__, e, loc),
                where=where, exc=type(e).__name__, loc=loc)

# --------------------------------------------------------------------------- child entry


def load_module(pid):
    return importlib.import_module("vf.props.%s" % pid.lower())


def shard_main(argv):
    pid, tier, k, n, outfile = argv[0], argv[1], int(argv[2]), int(argv[3]), argv[4]
    seed = int(os.environ.get("VERIF_SEED", "1") or 1)
    rec = Recorder(pid, tier, seed, k, n, outfile)
    try:
        from vf import build
        build.assert_shadow()
        mod = load_module(pid)
        rec.scale = float(getattr(mod, "THOROUGH_SCALE", 1.0))
        mod.run_shard(rec)
        rec.flush()
    except BaseException:
        rec.notes["harness_error"] = traceback.format_exc()
        rec.notes.setdefault("__how__", {})["harness_error"] = "set"
        rec.flush()
        traceback.print_exc()
        sys.stdout.flush()
        sys.stderr.flush()
        os._exit(2)
    sys.stdout.flush()
    sys.stderr.flush()
    os._exit(0)      # do not wait for stray threads / atexit handlers


def replay_child(argv):
    pid, path = argv[0], argv[1]
    from vf import build
    build.assert_shadow()
    mod = load_module(pid)
    with open(path) as f:
        rp = json.load(f)
    rec = Recorder(pid, "quick", int(rp.get("seed", 1)), 0, 1, path + ".replayout")
    fails = mod.replay(rp["sub"], dec(rp["case"]), rec)
    fails = rec.filter_known(fails) if fails else []
    for e in rec.known_hits:
        print("KNOWN-FINDING: property=%s %s" % (pid, e))
    try:
        os.remove(path + ".replayout")
    except OSError:
        pass
    if fails:
        for f in fails[:5]:
            print("  failure:", f.get("kind"), "-", f.get("detail"))
        print("VIOLATION property=%s replay=%s" % (pid, path))
        sys.stdout.flush()
        os._exit(1)
    print("replay: no failure for", path)
    sys.stdout.flush()
    os._exit(0)

# --------------------------------------------------------------------------- parent


def _merge(results):
    cov = dict(evaluations=0, classes={}, excluded={}, known_hits={})
    nt = set()
    samples, notes, violations, errors = [], {}, [], []
    for r in results:
        cov["evaluations"] += r["evaluations"]
        nt.update(r["nt"])
        for key in ("classes", "excluded", "known_hits"):
            for c, v in r[key].items():
                cov[key][c] = cov[key].get(c, 0) + v
        for s in r["samples"]:
            if len(samples) < 6:
                samples.append(s)
        for kk, v in r["notes"].items():
            if kk == "harness_error":
                errors.append(v)
                continue
            how = r.get("how", {}).get(kk, "sum")
            if kk not in notes:
                notes[kk] = v
            elif how == "sum":
                notes[kk] += v
            elif how == "max":
                notes[kk] = max(notes[kk], v)
            elif how == "min":
                notes[kk] = min(notes[kk], v)
        for v in r["violations"]:
            v = dict(v)
            v["shard"] = r["shard"]
            violations.append(v)
    cov["distinct_nontrivial"] = len(nt)
    return cov, samples, notes, violations, errors


def write_replay(pid, seed, viol):
    d = os.path.join(VERIF, "replays", pid)
    os.makedirs(d, exist_ok=True)
    body = {"property": pid, "seed": seed, "sub": viol["sub"], "case": viol["case"],
            "failures": viol.get("failures", []), "flaky": viol.get("flaky", False)}
    if "sanitizer_report" in viol:
        body["sanitizer_report"] = viol["sanitizer_report"]
    s = json.dumps(body, sort_keys=True, default=str)
    name = hashlib.sha1(s.encode()).hexdigest()[:12] + ".json"
    path = os.path.join(d, name)
    with open(path, "w") as f:
        f.write(s)
    return os.path.relpath(path, VERIF)


def run_check(pid, tier):
    from vf import build
    t0 = time.time()
    seed = int(os.environ.get("VERIF_SEED", "1") or 1)
    mod_spec = _static_spec(pid)
    flavours = mod_spec["flavours"](tier)          # list of (flavour, threads) per shard
    nsh = len(flavours)
    rundir = os.path.join(TMPROOT, "%s-%d-%d" % (pid, os.getpid(), int(t0)))
    os.makedirs(rundir, exist_ok=True)
    try:
        envs = {}
        for fl, th in set(flavours):
            envs[(fl, th)] = build.child_env(fl, th)
    except build.BuildError as e:
        print("HARNESS-ERROR: build failed\n%s" % e)
        return 2
    # numba-compiled modules: compile once (cached) before the shards start
    warm = mod_spec.get("warmup")
    if warm:
        env = dict(envs[flavours[0]])
        env["VERIF_TMP"] = rundir
        p = subprocess.run([sys.executable, "-c", "import importlib\nfor m in %r:\n    "
                            "importlib.import_module(m)\nimport vf.props.%s as P\n"
                            "getattr(P, 'warmup', lambda: None)()" % (list(warm), pid.lower())],
                           env=env, cwd=rundir, stdout=subprocess.PIPE, stderr=subprocess.STDOUT)
        if p.returncode != 0:
            print("HARNESS-ERROR: warm-up import failed\n%s" % p.stdout.decode(errors="replace")[-3000:])
            return 2
    maxpar = int(os.environ.get("VERIF_JOBS", "16"))
    pending = list(range(nsh))
    running = []
    results, crashed = {}, {}
    logs = {}

    def start(k):
        out = os.path.join(rundir, "shard%d.json" % k)
        logf = open(os.path.join(rundir, "shard%d.log" % k), "wb")
        env = dict(envs[flavours[k]])
        env["VERIF_SEED"] = str(seed)
        env["VERIF_TIER"] = tier
        env["VERIF_TMP"] = os.path.join(rundir, "t%d" % k)
        os.makedirs(env["VERIF_TMP"], exist_ok=True)
        env["TMPDIR"] = env["VERIF_TMP"]
        p = subprocess.Popen([sys.executable, "-m", "vf.runner", "--shard", pid, tier,
                              str(k), str(nsh), out], env=env, cwd=env["VERIF_TMP"],
                             stdout=logf, stderr=subprocess.STDOUT)
        return (k, p, out, logf)

    while pending or running:
        while pending and len(running) < maxpar:
            running.append(start(pending.pop(0)))
        time.sleep(0.05)
        still = []
        for k, p, out, logf in running:
            rc = p.poll()
            if rc is None:
                still.append((k, p, out, logf))
                continue
            logf.close()
            logs[k] = os.path.join(rundir, "shard%d.log" % k)
            res = None
            if os.path.exists(out):
                with open(out) as f:
                    res = json.load(f)
            if rc == 0 and res is not None:
                results[k] = res
            else:
                crashed[k] = (rc, res, out)
        running = still

    status = 0
    viol_lines = []
    allres = list(results.values())
    harness_errors = []
    for k, (rc, res, out) in sorted(crashed.items()):
        with open(logs[k], "rb") as f:
            logtxt = f.read().decode(errors="replace")
        jpath = out + ".journal"
        sanit = ("ERROR: AddressSanitizer" in logtxt or "runtime error:" in logtxt
                 or rc == ASAN_EXIT or (rc is not None and rc < 0))
        if res is not None:
            allres.append(res)
        hpath = out + ".hang"
        if rc == HANG_EXIT and os.path.exists(hpath):
            with open(hpath) as f:
                j = json.load(f)
            v = {"sub": j["sub"], "case": j["case"], "shard": k,
                 "failures": [fail("hang", "the call did not return within %s s (other cases take about a second): "
                                   "threads left waiting for one another" % j.get("seconds"))]}
            if res is None:
                allres.append(dict(pid=pid, shard=k, evaluations=0, nt=[], classes={},
                                   samples=[], excluded={}, known_hits={},
                                   violations=[], notes={}, how={}))
            allres[-1].setdefault("violations", []).append(v)
        elif sanit and os.path.exists(jpath):
            with open(jpath) as f:
                j = json.load(f)
            v = {"sub": j["sub"], "case": j["case"], "shard": k,
                 "failures": [fail("crash", "child exit %s" % rc)],
                 "sanitizer_report": logtxt[-6000:]}
            if res is None:
                allres.append(dict(pid=pid, shard=k, evaluations=0, nt=[], classes={},
                                   samples=[], excluded={}, known_hits={},
                                   violations=[], notes={}, how={}))
            allres[-1].setdefault("violations", []).append(v)
        else:
            harness_errors.append("shard %d exit %s\n%s" % (k, rc, logtxt[-3000:]))

    cov, samples, notes, violations, errors = _merge(allres)
    harness_errors += errors
    known_entries = {e["id"]: e for e in load_known(pid)}
    for hid, n in sorted(cov["known_hits"].items()):
        e = known_entries.get(hid, {})
        print("KNOWN-FINDING: property=%s %s (%s; met %d times)" %
              (pid, hid, e.get("what", ""), n))
    seen = set()
    for v in violations:
        path = write_replay(pid, seed, v)
        if path in seen:
            continue
        seen.add(path)
        for f in v.get("failures", [])[:3]:
            print("  [%s] %s: %s" % (v["sub"], f.get("kind"), str(f.get("detail"))[:600]))
        print("VIOLATION property=%s replay=%s" % (pid, path))
        status = 1
        if len(seen) >= 8:
            break
    if harness_errors and status == 0:
        for h in harness_errors[:3]:
            print("HARNESS-ERROR:", h)
        status = 2

    coverage = dict(evaluations=cov["evaluations"],
                    distinct_nontrivial=cov["distinct_nontrivial"],
                    rule=mod_spec["rule"], samples=samples, classes=cov["classes"],
                    excluded=cov["excluded"], excluded_known=cov["known_hits"],
                    shards=nsh, engines=sorted(set("%s/%s" % (f, t) for f, t in flavours)))
    coverage.update(notes)
    if mod_spec.get("exhaustive_note"):
        coverage["exhaustive_parts"] = mod_spec["exhaustive_note"]
    ev = dict(property_id=pid, tier=tier, seed=seed, level="exploration",
              coverage=coverage, assumptions=mod_spec["assumptions"],
              wall_s=round(time.time() - t0, 2), violations=len(seen),
              repo=build.REPO, harness_errors=len(harness_errors))
    if status != 2:
        # evidence describes runs against /repo; runs against another copy (mutants) are kept apart
        evdir = os.path.join(VERIF, "evidence") if os.path.abspath(build.REPO) == "/repo" else \
            os.path.join(VERIF, ".build", "evidence-other-repo")
        os.makedirs(evdir, exist_ok=True)
        with open(os.path.join(evdir, "%s.json" % pid), "w") as f:
            json.dump(ev, f, indent=1, sort_keys=True, default=str)
    print("%s %s seed=%d: %d cases, %d distinct non-trivial, %d violations, %.1fs" %
          (pid, tier, seed, cov["evaluations"], cov["distinct_nontrivial"], len(seen),
           time.time() - t0))
    if status != 2 or not os.environ.get("VERIF_KEEP"):
        import shutil
        if status == 0 or not os.environ.get("VERIF_KEEP"):
            shutil.rmtree(rundir, ignore_errors=True)
    return status


def _static_spec(pid):
    """RULE / ASSUMPTIONS / shard layout of a property module, imported without
    importing ImageD11 (the parent never imports the code under test)."""
    mod = importlib.import_module("vf.props.%s" % pid.lower())
    return dict(rule=mod.RULE, assumptions=list(mod.ASSUMPTIONS),
                flavours=mod.shard_layout,
                exhaustive_note=getattr(mod, "EXHAUSTIVE", None),
                warmup=getattr(mod, "WARMUP", None))


def run_replay(pid, path):
    from vf import build
    if not os.path.isabs(path):
        path = os.path.join(VERIF, path)
    with open(path) as f:
        rp = json.load(f)
    mod = importlib.import_module("vf.props.%s" % pid.lower())
    fl, th = mod.replay_flavour(rp["sub"]) if hasattr(mod, "replay_flavour") else ("opt", None)
    try:
        env = build.child_env(fl, th)
    except build.BuildError as e:
        print("HARNESS-ERROR: build failed\n%s" % e)
        return 2
    os.makedirs(TMPROOT, exist_ok=True)
    env["VERIF_TMP"] = TMPROOT
    env["TMPDIR"] = TMPROOT
    p = subprocess.run([sys.executable, "-m", "vf.runner", "--replay-child", pid, path],
                       env=env, cwd=TMPROOT, stdout=subprocess.PIPE, stderr=subprocess.STDOUT)
    out = p.stdout.decode(errors="replace")
    sys.stdout.write(out)
    if p.returncode in (0, 1):
        return p.returncode
    if p.returncode == ASAN_EXIT or p.returncode < 0 or "AddressSanitizer" in out \
            or "runtime error:" in out:
        print("VIOLATION property=%s replay=%s" % (pid, os.path.relpath(path, VERIF)))
        return 1
    return 2


def main(argv):
    if argv and argv[0] == "--shard":
        shard_main(argv[1:])
    if argv and argv[0] == "--replay-child":
        replay_child(argv[1:])
    if len(argv) >= 3 and argv[1] == "--replay":
        return run_replay(argv[0].upper(), argv[2])
    if len(argv) < 2:
        print("usage: check <ID> quick|thorough | check <ID> --replay <file>")
        return 2
    os.environ.setdefault("VERIF_TIER", argv[1])
    try:
        return run_check(argv[0].upper(), argv[1])
    except Exception:
        traceback.print_exc()
        print("HARNESS-ERROR: runner failed")
        return 2


if __name__ == "__main__":
    sys.exit(main(sys.argv[1:]))
