"""C13 - local-maximum labelling follows steepest ascent for every thread count."""
import numpy as np
from hypothesis import strategies as st
from vf import oracles, gens
from vf.runner import hyp_run, run_cases, guard, fail, exc_failure

RULE = ("tie-free images >= 3x3: random permutations of distinct values (noisy), sums of 1-4 Gaussians plus a distinct "
        "dither (few maxima, long ascent paths), ridges/saddles, one-pixel serpentine ridges (ascent paths of O(rows*cols) steps); shapes 3x3..64x64 in the schedule sweep (so that with "
        "16-64 threads each thread owns a few pixels) and up to 512x512 otherwise; labels and work buffers "
        "pre-filled with poison (-7/77, 0, previous result); thread counts {1,2,3,7,16,48,64} x 4 repeats; sparse: "
        "the same image restricted to an interior mask with gaps through sparse_localmaxlabel, sparse_localmax and "
        "SparseScan.lmlabel (single calls and raw/smoothed/raw/smoothed histories on one scan object); oracle = vectorised steepest-ascent reference (argmax of the 3x3 window, pointer "
        "jumping); non-trivial = an ascent path longer than 4 pixels that ends in another thread's block (for the "
        "largest thread count of the case); distinct = hash of the case")
ASSUMPTIONS = ["images have no equal-valued neighbours (constructed); border pixels are background and an ascent "
               "path that reaches the border yields label 0, as in the repository's own reference",
               "OpenMP schedules are sampled (thread count x repeats x small images), not enumerated"]
THREADS = [1, 2, 3, 7, 16, 48, 64]


def shard_layout(tier):
    return [("opt", None)] * (8 if tier == "quick" else 16)


@st.composite
def cases(draw, maxdim=64):
    kind = draw(st.sampled_from(["perm", "gauss", "gauss", "gauss", "ridge", "ramp", "snake", "snake"]))
    ns = draw(st.integers(3, maxdim))
    nf = draw(st.integers(3, maxdim))
    seed = draw(st.integers(0, 2 ** 31 - 1))
    poison = draw(st.sampled_from(["-7/77", "0/0", "prev", "big"]))
    threads = draw(st.lists(st.sampled_from(THREADS), min_size=2, max_size=4, unique=True))
    return dict(kind=kind, ns=ns, nf=nf, seed=seed, poison=poison, threads=sorted(threads))


@st.composite
def widecases(draw):
    """few rows, one or two thousand columns (or the transpose): detector-sized rows at small cost"""
    c = draw(cases(16))
    c["kind"] = draw(st.sampled_from(["perm", "perm", "gauss", "ramp"]))
    long = draw(st.sampled_from([511, 512, 513, 700, 1022, 1023, 1300, 2048, 2049]))
    if draw(st.booleans()):
        c["nf"] = long
    else:
        c["ns"] = long
        c["nf"] = max(c["nf"], 3)
    c["threads"] = sorted(draw(st.lists(st.sampled_from([1, 2, 4, 16]), min_size=1, max_size=2, unique=True)))
    return c


def make_image(case):
    rng = np.random.RandomState(case["seed"] % (2 ** 32))
    ns, nf = case["ns"], case["nf"]
    y, x = np.mgrid[0:ns, 0:nf].astype(float)
    k = case["kind"]
    if k == "perm":
        return rng.permutation(ns * nf).reshape(ns, nf).astype(np.float32)
    if k == "snake":
        # a one pixel wide serpentine ridge climbing along its whole length: ascent paths of O(ns*nf) steps
        tr = bool(rng.randint(2))
        a, b = (nf, ns) if tr else (ns, nf)
        im = -1.0 - rng.permutation(a * b).reshape(a, b).astype(float)        # distinct low background
        t = 0
        rows = list(range(1, a - 1, 2))
        for n, r in enumerate(rows):
            cols = list(range(1, b - 1))
            if n % 2:
                cols = cols[::-1]
            for c in cols:
                t += 1
                im[r, c] = t
            if n + 1 < len(rows):          # connector to the next ridge row
                t += 1
                im[r + 1, cols[-1]] = t
        if rng.randint(2):
            im = np.where(im > 0, t + 1 - im, im)       # climb in the other direction
        if tr:
            im = im.T
        if rng.randint(2):
            im = im[::-1, ::-1]
        return np.ascontiguousarray(im - im.min()).astype(np.float32)
    if k == "gauss":
        im = np.zeros((ns, nf))
        for _ in range(rng.randint(1, 5)):
            cy, cx = rng.uniform(-2, ns + 2), rng.uniform(-2, nf + 2)
            im += np.exp(-((y - cy) ** 2 + (x - cx) ** 2) / rng.uniform(10, 40 * max(ns, nf))) * rng.uniform(200, 1000)
    elif k == "ridge":
        a = rng.uniform(0, np.pi)
        d = (x - nf / 2) * np.cos(a) + (y - ns / 2) * np.sin(a)
        s = -(x - nf / 2) * np.sin(a) + (y - ns / 2) * np.cos(a)
        im = 500 * np.exp(-d * d / 8.0) + 0.5 * s
    else:
        im = (x * rng.uniform(-3, 3) + y * rng.uniform(-3, 3))
    # distinct dither: a permutation scaled below the smallest structural step, then made exactly distinct
    im = (im * 64).round() * (ns * nf + 1) + rng.permutation(ns * nf).reshape(ns, nf)
    im = im - im.min()
    # float32 holds integers exactly below 2^24: rescale by ranks when too large
    if im.max() >= 2 ** 24:
        order = np.argsort(im.ravel(), kind="stable")
        ranks = np.empty(ns * nf)
        ranks[order] = np.arange(ns * nf)
        im = ranks.reshape(ns, nf)
    return im.astype(np.float32)


def reference(im):
    """labels (0 border / path ending on the border), number of interior maxima, hop counts"""
    ns, nf = im.shape
    N = ns * nf
    ptr = np.arange(N)
    win = []
    tgt = []
    idx = np.arange(N).reshape(ns, nf)
    for di in (-1, 0, 1):
        for dj in (-1, 0, 1):
            win.append(im[1 + di:ns - 1 + di, 1 + dj:nf - 1 + dj])
            tgt.append(idx[1 + di:ns - 1 + di, 1 + dj:nf - 1 + dj])
    win = np.array(win)
    tgt = np.array(tgt)
    if ns > 2 and nf > 2:
        am = win.argmax(axis=0)
        # ties inside a window would make the answer ambiguous
        srt = np.sort(win, axis=0)
        tie = bool((srt[-1] == srt[-2]).any())
        best = np.take_along_axis(tgt, am[None], axis=0)[0]
        ptr[idx[1:-1, 1:-1].ravel()] = best.ravel()
    else:
        tie = False
    interior = np.zeros((ns, nf), bool)
    interior[1:-1, 1:-1] = True
    ismax = (ptr == np.arange(N)) & interior.ravel()
    root = ptr.copy()
    hops = (root != np.arange(N)).astype(int)
    if N > 16384:
        # large images: pointer doubling (log steps); hop counts are then only lower bounds
        while True:
            nxt = root[root]
            if np.array_equal(nxt, root):
                break
            hops += (nxt != root)
            root = nxt
    while N <= 16384:
        nxt = root[root]
        moved = nxt != root
        if not moved.any():
            break
        hops += moved
        root = ptr[root]
        # simple walking (one step per iteration) keeps hop counts exact; images are small
    lab_of = np.zeros(N, np.int32)
    lab_of[ismax] = np.arange(1, int(ismax.sum()) + 1)
    labels = lab_of[root].reshape(ns, nf)
    return labels, int(ismax.sum()), hops.reshape(ns, nf), root.reshape(ns, nf), tie


def check(case, rec=None):
    from ImageD11 import cImageD11
    im = make_image(case)
    ns, nf = im.shape
    ref, nref, hops, root, tie = reference(im)
    if tie:
        raise RuntimeError("harness: generated image has equal-valued neighbours")
    fails = []
    prev = None
    nruns = 0
    try:
        for nt in case["threads"]:
            cImageD11.cimaged11_omp_set_num_threads(nt)
            for rep in range(4):
                p = case["poison"]
                if p == "-7/77":
                    lab = np.full((ns, nf), -7, np.int32)
                    wrk = np.full((ns, nf), 77, np.uint8)
                elif p == "0/0":
                    lab = np.zeros((ns, nf), np.int32)
                    wrk = np.zeros((ns, nf), np.uint8)
                elif p == "big":
                    lab = np.full((ns, nf), 2 ** 30, np.int32)
                    wrk = np.full((ns, nf), 255, np.uint8)
                else:
                    lab = prev[0].copy() if prev is not None else np.full((ns, nf), -1, np.int32)
                    wrk = prev[1].copy() if prev is not None else np.full((ns, nf), 9, np.uint8)
                ok, n = guard(cImageD11.localmaxlabel, im, lab, wrk)
                if not ok:
                    return [exc_failure("localmaxlabel", n)]
                nruns += 1
                prev = (lab, wrk)
                if n != nref:
                    fails.append(fail("count", "localmaxlabel returned %d labels, %d interior local maxima "
                                      "(%dx%d %s, threads=%d)" % (n, nref, ns, nf, case["kind"], nt), threads=nt > 1))
                if not np.array_equal(lab, ref):
                    bad = np.argwhere(lab != ref)
                    i, j = bad[0]
                    fails.append(fail("labels", "localmaxlabel differs from steepest ascent at %d pixels, e.g. "
                                      "(%d,%d): got %d expected %d (path length %d; %dx%d %s, threads=%d repeat %d, "
                                      "buffers %s)" % (len(bad), i, j, lab[i, j], ref[i, j], hops[i, j], ns, nf,
                                                       case["kind"], nt, rep, p), threads=nt > 1))
                if fails:
                    break
            if fails:
                break
    finally:
        cImageD11.cimaged11_omp_set_num_threads(2)
    if rec is not None:
        ntmax = max(case["threads"])
        flat = np.arange(ns * nf).reshape(ns, nf)
        block = (flat * ntmax) // (ns * nf)
        rblock = (root * ntmax) // (ns * nf)
        cross = bool(((hops > 4) & (block != rblock)).any())
        rec.count(nruns - 1, ["runs"])
        rec.case(case, cross and ntmax > 1, ["kind:" + case["kind"], "poison:" + case["poison"]] +
                 (["long_cross_block_path"] if cross else []))
        for nt in case["threads"]:
            rec.note("runs_threads_%d" % nt, 4)
    return fails


# ------------------------------------------------------------------ sparse variants

@st.composite
def spcases(draw):
    c = draw(cases(maxdim=48))
    c["gap"] = draw(st.sampled_from([0.0, 0.1, 0.3, 0.6]))
    c["mseed"] = draw(st.integers(0, 2 ** 31 - 1))
    c["offset"] = draw(st.sampled_from(["none", "none", "mid", "all"]))
    return c


def check_sparse(case, rec=None):
    from ImageD11 import cImageD11, sparseframe
    im = make_image(case)
    ns, nf = im.shape
    rng = np.random.RandomState(case["mseed"] % (2 ** 32))
    mask = np.zeros((ns, nf), bool)
    mask[1:-1, 1:-1] = rng.random_sample((ns - 2, nf - 2)) >= case["gap"]
    edges = case["mseed"] % 3 == 0
    if edges:
        # a pixel list may reach the first / last row and column of the detector (a sparse list has no border)
        mask = rng.random_sample((ns, nf)) >= case["gap"]
        mask[:, 0] |= rng.random_sample(ns) < 0.5
    if not mask.any():
        mask[1, 1] = True
    dense = np.where(mask, im + 1.0, 0.0).astype(np.float32)       # gaps/border are below every listed pixel
    if edges:
        # reference on the image framed by one ring of background, so that detector-edge pixels are interior
        framed = np.zeros((ns + 2, nf + 2), np.float32)
        framed[1:-1, 1:-1] = dense
        r_, nref, h_, root_, t_ = reference(framed)
        ref, hops, root, tie = r_[1:-1, 1:-1], h_, root_, t_
    else:
        ref, nref, hops, root, tie = reference(dense)
    # gaps are equal-valued (0): a listed pixel never steps onto them, so ties among zeros are harmless;
    # the pixels of interest are the listed ones
    i, j = np.nonzero(mask)
    i = i.astype(np.uint16)
    j = j.astype(np.uint16)
    v = dense[mask].astype(np.float32)
    # the listed values may be negative (background subtracted data): a constant shift of the listed pixels does not
    # change which listed neighbour is the largest, and pixels that are not listed never attract anything
    off = {"none": 0.0, "mid": float(np.floor(np.median(v))) + 0.5, "all": float(v.max()) + 1.0}[case.get("offset", "none")]
    v = (v - np.float32(off)).astype(np.float32)
    nnz = len(v)
    # expected partition: reference labels of listed pixels (all > 0: paths cannot leave the mask)
    exp = ref[mask]
    if (exp <= 0).any():
        raise RuntimeError("harness: a listed pixel reached background in the reference")
    nexp = len(np.unique(exp))
    fails = []

    def cmp(name, n, labels):
        labels = np.asarray(labels)
        if n != nexp:
            fails.append(fail("count", "%s returned %d labels, expected %d maxima" % (name, n, nexp), fn=name))
        d1 = np.zeros((ns, nf), np.int64)
        d1[i, j] = labels
        d2 = np.zeros((ns, nf), np.int64)
        d2[i, j] = exp
        if (labels <= 0).any():
            fails.append(fail("labels", "%s: non-positive label on a listed pixel" % name, fn=name))
        elif not oracles.same_partition(d1, d2):
            fails.append(fail("partition", "%s: partition differs from steepest ascent on the listed pixels" % name,
                              fn=name))
        elif set(np.unique(labels).tolist()) != set(range(1, n + 1)):
            fails.append(fail("labelset", "%s: labels are not exactly 1..%d" % (name, n), fn=name))
    for pois in ((-7, 1e9, -3), (0, 0.0, 0)):
        lab = np.full(nnz, pois[0], np.int32)
        MV = np.full(nnz, pois[1], np.float32)
        iMV = np.full(nnz, pois[2], np.int32)
        ok, n = guard(cImageD11.sparse_localmaxlabel, v, i, j, MV, iMV, lab)
        if not ok:
            return [exc_failure("sparse_localmaxlabel", n)]
        cmp("sparse_localmaxlabel", n, lab)
    # the data to label may sit under another name and in another number type, next to an unrelated 'intensity'
    other = np.ascontiguousarray(v[::-1].copy())
    alt = v.astype(np.float64) if (v < 0).any() or (v != np.rint(v)).any() or v.max() > 65535 or case["mseed"] % 2 else v.astype(np.uint16)
    fr2 = sparseframe.sparse_frame(i, j, (ns, nf), pixels={"intensity": other, "signal": alt})
    ok, n = guard(sparseframe.sparse_localmax, fr2, "lm2", "signal")
    if ok:
        cmp("sparseframe.sparse_localmax(data_name='signal', %s)" % alt.dtype, n, fr2.pixels["lm2"])
    else:
        fails.append(exc_failure("sparse_localmax(data_name=...)", n))
    lm2_before = np.array(fr2.pixels["lm2"], copy=True) if "lm2" in fr2.pixels else None
    fr = sparseframe.sparse_frame(i, j, (ns, nf), pixels={"intensity": v})
    ok, n = guard(sparseframe.sparse_localmax, fr)
    if ok and lm2_before is not None:
        # a whole scan is labelled frame by frame before anything reads the labels: labelling this frame (and a
        # smaller, different one) must leave the labels of the frame done before as they were
        sub = slice(0, max(1, nnz // 2))
        fr3 = sparseframe.sparse_frame(i[sub], j[sub], (ns, nf), pixels={"intensity": np.ascontiguousarray(v[sub][::-1])})
        guard(sparseframe.sparse_localmax, fr3)
        if not np.array_equal(fr2.pixels["lm2"], lm2_before):
            fails.append(fail("history", "the labels sparse_localmax stored in one frame changed when other frames were "
                              "labelled afterwards", fn="sparse_localmax"))
    if ok:
        cmp("sparseframe.sparse_localmax", n, fr.pixels["localmax"])
        if fr.meta["localmax"].get("nlabel") != n:
            fails.append(fail("meta", "sparse_localmax meta nlabel wrong", fn="sparse_localmax"))
    else:
        fails.append(exc_failure("sparse_localmax", n))
    if ok and not fails:
        # the label image of the frame: into a buffer of the caller's (with content from a frame before) or a new one
        ok, dn = guard(fr.to_dense, "localmax")
        buf_ = np.full((ns, nf), 9, np.asarray(fr.pixels["localmax"]).dtype)
        ok2, db = guard(fr.to_dense, "localmax", buf_)
        if ok and ok2:
            if not np.array_equal(np.asarray(dn), np.asarray(db)) or (np.asarray(db)[~(np.asarray(dn) > 0)] != 0).any():
                fails.append(fail("background", "to_dense('localmax', out=used buffer) differs from to_dense('localmax'): "
                                  "pixels outside the frame keep what the buffer held", fn="to_dense"))
        else:
            fails.append(exc_failure("sparse_frame.to_dense", dn if not ok else db))
        # the same pixels delivered in another order on a large detector (addresses beyond 65535), put in order by
        # sort(): same labels as the frame built in order
        pm_ = np.random.RandomState(case["mseed"] % (2 ** 32)).permutation(nnz)
        big_ = (ns + 400, max(nf, 300))
        frs = sparseframe.sparse_frame((i + 400).astype(np.uint16)[pm_], j[pm_], big_, pixels={"intensity": v[pm_]})
        fro = sparseframe.sparse_frame((i + 400).astype(np.uint16), j, big_, pixels={"intensity": v})
        ok, e_ = guard(frs.sort)
        if ok:
            ok, ns_ = guard(sparseframe.sparse_localmax, frs)
            ok2, no_ = guard(sparseframe.sparse_localmax, fro)
        if not ok:
            fails.append(exc_failure("sparse_frame.sort / sparse_localmax", e_ if not isinstance(e_, type(None)) else ns_))
        elif not (np.array_equal(frs.row, fro.row) and np.array_equal(frs.col, fro.col) and ns_ == no_ and
                  np.array_equal(frs.pixels["localmax"], fro.pixels["localmax"])):
            fails.append(fail("order", "a frame of a %d x %d detector put in order with sort() is labelled differently "
                              "from the same frame built in order (%s vs %s labels)" % (big_[0], big_[1], ns_, no_),
                              fn="sort"))
    sc = object.__new__(sparseframe.SparseScan)
    sc.names = ["row", "col", "intensity"]
    sc.nnz = np.array([nnz, 0, nnz])
    sc.ipt = sparseframe.nnz_to_pointer(sc.nnz)
    sc.row = np.concatenate([i, i])
    sc.col = np.concatenate([j, j])
    sc.intensity = np.concatenate([v, v])
    ok, e = guard(sc.lmlabel, 0, True, False)
    if ok:
        cmp("SparseScan.lmlabel", int(sc.nlabels[0]), sc.labels[:nnz])
        if not (np.array_equal(sc.labels[nnz:], sc.labels[:nnz] + sc.nlabels[0]) and sc.nlabels[1] == 0 and
                sc.total_labels == 2 * sc.nlabels[0]):
            fails.append(fail("lmlabel_offset", "SparseScan.lmlabel: second frame's labels are not offset by the "
                              "first frame's count", fn="lmlabel"))
    else:
        fails.append(exc_failure("SparseScan.lmlabel", e))
    # ---- history on one scan object: raw, smoothed, raw again (work arrays must not alias the data)
    if not fails:
        from scipy import ndimage
        vi = np.rint(v).astype(np.float32)                      # integer valued: the 1/16 smoothing is exact
        di = np.zeros((ns, nf))
        di[i, j] = vi
        sm = ndimage.convolve(di, np.array([[1., 2, 1], [2, 4, 2], [1, 2, 1]]) / 16.0, mode="constant")[i, j]
        import os
        path = os.path.join(os.environ.get("VERIF_TMP", "."), "c13_scan_%d.h5" % os.getpid())
        gens.write_sparse_scan(path, [(i, j, vi), (i[:0], j[:0], vi[:0]), (i, j, vi)], (ns, nf),
                               omega=[0.0, 1.0, 2.0], dty=[0.0, 0.0, 0.0])
        ok, sc = guard(gens.read_sparse_scan, path)          # a real scan object, read from a file as users do
        os.remove(path)
        if not ok:
            return fails + [exc_failure("SparseScan()", sc)]
        keep = sc.intensity.copy()
        for step, (smooth, countall) in enumerate(((False, True), (True, True), (False, False), (True, False),
                                                   (False, True))):
            ok, e = guard(sc.lmlabel, 0, countall, smooth)
            if not ok:
                fails.append(exc_failure("SparseScan.lmlabel(smooth=%s) step %d" % (smooth, step), e))
                break
            # what the frame views hand out (used by props / pairrow / pairscans) is the current labelling
            ok, f0 = guard(sc.getframe, 0)
            ok2, f2 = guard(sc.getframe, 2)
            if not (ok and ok2):
                fails.append(exc_failure("SparseScan.getframe", f0 if not ok else f2))
                break
            if sc.getframe(1) is not None:
                fails.append(fail("history", "getframe of the empty frame is not None", fn="getframe"))
            if "labels" in f0.pixels and not (np.array_equal(f0.pixels["labels"], sc.labels[:nnz]) and
                                              np.array_equal(f2.pixels["labels"], sc.labels[nnz:]) and
                                              np.array_equal(f0.pixels["intensity"], keep[:nnz])):
                fails.append(fail("history", "step %d of a labelling history (lmlabel smooth=%s countall=%s): the frames "
                                  "handed out by getframe do not carry the scan's current labels" %
                                  (step, smooth, countall), fn="getframe"))
                break
            # the counts the property speaks of: one entry per frame, and their total (however the labels are
            # numbered across frames)
            if not (len(sc.nlabels) == 3 and sc.nlabels[1] == 0 and sc.nlabels[0] == sc.nlabels[2] and
                    int(sc.total_labels) == int(sc.nlabels.sum()) and
                    int(sc.nlabels[0]) == (int(sc.labels[:nnz].max()) if nnz else 0)):
                fails.append(fail("history", "step %d (countall=%s): nlabels %s, total_labels %s, largest label of the "
                                  "first frame %s" % (step, countall, sc.nlabels.tolist(), sc.total_labels,
                                                      int(sc.labels[:nnz].max()) if nnz else 0), fn="lmlabel"))
                break
            exp_second = sc.labels[:nnz] + (sc.nlabels[0] if countall else 0)
            if not np.array_equal(sc.labels[nnz:], exp_second):
                fails.append(fail("history", "step %d (countall=%s): labels of the second non-empty frame are not those "
                                  "of the first %s" % (step, countall, "offset by its count" if countall else
                                                       "(numbering restarts per frame)"), fn="lmlabel"))
                break
            if not np.array_equal(sc.intensity, keep):
                fails.append(fail("history", "SparseScan.lmlabel(smooth=%s) at step %d of the history modified the "
                                  "intensity array" % (smooth, step), fn="lmlabel"))
                break
            expsig = sm if smooth else vi
            if np.abs(np.asarray(sc.signal[:nnz], float) - expsig).max() > 1e-5 * (1 + np.abs(expsig).max()):
                fails.append(fail("history", "SparseScan.lmlabel(smooth=%s) at step %d labelled a signal that is "
                                  "neither the raw nor the smoothed intensity" % (smooth, step), fn="lmlabel"))
                break
            if not smooth and np.array_equal(vi, v):
                cmp("SparseScan.lmlabel (history step %d)" % step, int(sc.nlabels[0]), sc.labels[:nnz])
    if rec is not None:
        rec.case(case, case["gap"] > 0 and nexp >= 2, ["sparse", "gap:%g" % case["gap"],
                                                          "values:" + {"none": "positive", "mid": "mixed_sign",
                                                                       "all": "negative"}[case.get("offset", "none")]] +
                 (["detector_edge_pixels"] if edges else []))
    return fails


def run_shard(rec):
    quick = rec.tier == "quick"
    hyp_run(rec, "dense", cases(64), lambda c: check(c, rec), max_examples=150 if quick else 1500, shrink=False)
    hyp_run(rec, "dense_large", cases(512 if not quick else 200), lambda c: check(c, rec),
            max_examples=4 if quick else 40, shrink=False)
    hyp_run(rec, "dense_wide", widecases(), lambda c: check(c, rec), max_examples=6 if quick else 60, shrink=False)
    hyp_run(rec, "sparse", spcases(), lambda c: check_sparse(c, rec), max_examples=150 if quick else 1500)


def replay(sub, case, rec):
    if sub == "sparse":
        return check_sparse(case, rec)
    fails = []
    for _ in range(50):            # schedule dependent: repeat
        fails = check(case, None)
        if fails:
            break
    return fails
