"""C07 - every peak is assigned to its best-fitting grain, whatever the order or threads."""
import numpy as np
from hypothesis import strategies as st
from vf import gens, oracles as O
from vf.props import c01
from vf.runner import hyp_run, run_cases, guard, fail, exc_failure, snapshot, written

THOROUGH_SCALE = 8      # multiplies every generated-case budget of the thorough tier
RULE = ("1-50 UBIs (random cells/orientations of a common cell family, plus near-twins = another grain x a lattice "
        "symmetry x (1+1e-4), exact duplicates, 2x sub-lattices) x peaks 1..1.2e5 (sizes straddling multiples of the "
        "4096 OpenMP chunk) = lattice points of a random owner + noise, or spurious x tol in [0.005,0.4] x a "
        "permutation of the grain order x OpenMP threads in {1,2,3,7,16,32}; entry points: raw "
        "score_and_assign loop (labels started at -1, and at 0 with grains numbered from 0 as the notebook helpers do), indexer.fight_over_peaks (fresh indexer, and after assigntorings with ds_tol 0.0005-0.01 so that part of the peaks lie on no ring), refinegrains.assignlabels with per-grain translations, grain names equal to, offset from or unrelated to list positions "
        "and generated geometry (peaks forward simulated by the harness); oracle = dense argmin over the reference "
        "error matrix; non-trivial = >=2 grains index a common peak within tol, or n>4096 with threads>1; distinct "
        "= hash of the case")
ASSUMPTIONS = ["exact ties (two best errors within 1e-12) only require the label to be one of the minimisers and are "
               "excluded from the order-independence comparison",
               "peaks whose error lies within rounding uncertainty of tol^2 may be assigned or not",
               "OpenMP schedules are sampled through the thread count; the loop writes only element k in iteration k"]
THREADS = [1, 2, 3, 7, 16, 32]


def shard_layout(tier):
    return [("opt", None)] * (8 if tier == "quick" else 16)


@st.composite
def cases(draw, big=False):
    fam, cell = draw(gens.cells(families=("cubic", "cubic", "hexagonal", "tetragonal", "orthorhombic",
                                          "monoclinic", "triclinic")))
    ng = draw(st.one_of(st.integers(1, 6), st.integers(7, 50)))
    if big:
        n = draw(st.sampled_from([4095, 4096, 4097, 8191, 8193, 12288, 40000, 120000]))
        ng = min(ng, 12)
    else:
        n = draw(st.one_of(st.integers(1, 50), st.integers(51, 3000)))
    tol = draw(st.sampled_from([0.005, 0.02, 0.05, 0.1, 0.25, 0.4]))
    noise = draw(st.sampled_from([0.0, 1e-4, 0.01, 0.05, 0.2]))
    twins = draw(st.sampled_from(["none", "none", "near", "dup", "sub"]))
    seed = draw(st.integers(0, 2 ** 31 - 1))
    threads = draw(st.lists(st.sampled_from(THREADS), min_size=2, max_size=3, unique=True))
    return dict(family=fam, cell=[float(x) for x in cell], ng=ng, n=n, tol=tol, noise=noise, twins=twins,
                seed=seed, threads=threads)


SYM90 = np.array([[0., -1, 0], [1, 0, 0], [0, 0, 1]])


def build(case):
    rng = np.random.RandomState(case["seed"] % (2 ** 32))
    B = gens.busing_levy_B(case["cell"])
    ng, n = case["ng"], case["n"]
    UBs = [gens.rotation_from_seed(int(rng.randint(0, 2 ** 31 - 1))) @ B for _ in range(ng)]
    if ng >= 2 and case["twins"] == "near":
        UBs[1] = UBs[0] @ np.linalg.inv(SYM90) * (1 + 1e-4)
    elif ng >= 2 and case["twins"] == "dup":
        UBs[1] = UBs[0].copy()
    elif ng >= 2 and case["twins"] == "sub":
        UBs[1] = UBs[0] * 0.5            # ubi doubled: indexes everything grain 0 indexes
    ubis = [np.ascontiguousarray(np.linalg.inv(u)) for u in UBs]
    owner = rng.randint(-1, ng, n)
    h = rng.randint(-7, 8, (n, 3)).astype(float) + rng.uniform(-1, 1, (n, 3)) * case["noise"]
    gv = np.empty((n, 3))
    for g in range(ng):
        m = owner == g
        gv[m] = (UBs[g] @ h[m].T).T
    m = owner < 0
    gv[m] = rng.standard_normal((int(m.sum()), 3)) * np.abs(B).max() * 3
    return ubis, np.ascontiguousarray(gv)


def dense_reference(ubis, gvs, tol, init):
    """gvs: one (n,3) array per grain (the same array when g-vectors are not recomputed).
    returns E (ng,n), expected labels, expected drlv2, tie mask, ambiguous mask"""
    ng = len(ubis)
    n = len(gvs[0])
    E = np.empty((ng, n))
    Uc = np.empty((ng, n))
    for g in range(ng):
        hh = gvs[g] @ ubis[g].T
        d = hh - np.rint(hh)
        E[g] = (d * d).sum(axis=1)
        hm = np.abs(hh).max(axis=1)
        Uc[g] = 4e-13 * (1 + hm) * (np.sqrt(E[g]) + 1e-13 * (1 + hm))
    t2 = tol * tol
    lim = min(t2, init)          # a peak is taken only if its error is below tol^2 and below the stored value
    inside = E < lim
    Em = np.where(inside, E, np.inf)
    best = Em.argmin(axis=0)
    bv = Em.min(axis=0)
    exp = np.where(np.isfinite(bv), best, -1)
    expd = np.where(np.isfinite(bv), bv, init)
    srt = np.sort(Em, axis=0)
    tie = np.zeros(n, bool)
    if ng > 1:
        tie = np.isfinite(srt[1]) & (srt[1] - srt[0] <= 1e-12 + 4 * Uc.max(axis=0))
    amb = (np.abs(E - lim) <= Uc).any(axis=0)
    return E, exp, expd, tie, amb, Em


def compare(name, labels, drlv2, ref, init, fails, extra=""):
    E, exp, expd, tie, amb, Em = ref
    labels = np.asarray(labels)
    ok = ~(tie | amb)
    bad = ok & (labels != exp)
    if bad.any():
        k = int(np.argmax(bad))
        fails.append(fail("label", "%s: peak %d labelled %d, best-fitting grain is %d (errors %s)%s" %
                          (name, k, labels[k], exp[k], np.round(E[:, k][:6], 6).tolist(), extra), entry=name))
    bad = ok & (np.abs(np.asarray(drlv2) - expd) > 1e-9 * (1 + expd))
    if bad.any():
        k = int(np.argmax(bad))
        fails.append(fail("drlv2", "%s: peak %d stored error %r, minimum over grains %r%s" %
                          (name, k, drlv2[k], expd[k], extra), entry=name))
    # ties: label must be one of the minimisers
    tk = np.nonzero(tie & ~amb)[0]
    for k in tk[:200]:
        mins = np.nonzero(Em[:, k] <= Em[:, k].min() + 1e-12 + 1e-9 * Em[:, k].min())[0]
        if labels[k] not in mins:
            fails.append(fail("tie", "%s: tied peak %d labelled %d, minimisers %s%s" %
                              (name, k, labels[k], mins.tolist(), extra), entry=name))
            break


def check(case, rec=None):
    from ImageD11 import cImageD11, indexing
    ubis, gv = build(case)
    ng, n, tol = len(ubis), len(gv), case["tol"]
    fails = []
    ref = dense_reference(ubis, [gv] * ng, tol, 2.0)
    E, exp, expd, tie, amb, Em = ref
    snap = snapshot(gv=gv, ubis=np.array(ubis))
    perm_rng = np.random.RandomState((case["seed"] + 1) % (2 ** 32))
    results = {}
    try:
        for nt in case["threads"]:
            cImageD11.cimaged11_omp_set_num_threads(nt)
            for oname, order in (("natural", list(range(ng))), ("permuted", perm_rng.permutation(ng).tolist())):
                drlv2 = np.full(n, 2.0)
                labels = np.full(n, -1, np.int32)
                counts = {}
                for i in order:
                    ok, c = guard(cImageD11.score_and_assign, ubis[i], gv, tol, drlv2, labels, int(i))
                    if not ok:
                        return [exc_failure("score_and_assign", c)]
                    counts[i] = c
                compare("score_and_assign loop (threads=%d, %s order)" % (nt, oname), labels, drlv2, ref, 2.0, fails)
                results[(nt, oname)] = (labels.copy(), drlv2.copy())
                if fails:
                    break
            if fails:
                break
        # metamorphic: identical arrays for every thread count (same order), and for every order apart from ties
        keys = list(results)
        for k in keys[1:]:
            a, b = results[keys[0]], results[k]
            same_order = keys[0][1] == k[1]
            m = np.ones(n, bool) if same_order else ~(tie | amb)
            if (a[0][m] != b[0][m]).any() or (a[1][m] != b[1][m]).any():
                fails.append(fail("schedule" if same_order else "order",
                                  "score_and_assign result differs between %s and %s (%d peaks)" %
                                  (keys[0], k, int((a[0][m] != b[0][m]).sum())), entry="score_and_assign"))
                break
        # ---- callers that start from labels = 0 and number grains from 0 (nb_utils.assign_peaks_to_grains,
        #      sinogram.prepare_peaks_from_2d): unindexed peaks must end up unassigned (-1), not as grain 0
        ref1 = dense_reference(ubis, [gv] * ng, tol, 1.0)
        drlv2 = np.ones(n)
        labels = np.zeros(n, np.int32)
        for i in range(ng):
            ok, cnt = guard(cImageD11.score_and_assign, ubis[i], gv, tol, drlv2, labels, int(i))
            if not ok:
                fails.append(exc_failure("score_and_assign", cnt))
                break
        else:
            compare("score_and_assign loop from zero-initialised labels", labels, drlv2, ref1, 1.0, fails)
        # ---- the notebook helper itself, on the whole table and on a table filtered to the peaks that some grain
        #      indexes (every peak finds an owner before the last grain is scored), grains in a shuffled order
        try:
            from ImageD11.nbGui import nb_utils
        except Exception:                     # optional gui dependencies missing
            nb_utils = None
        if nb_utils is not None and ng >= 1 and n >= 1:
            import io, contextlib
            from ImageD11 import columnfile, grain as grainmod
            claimed = (E < tol * tol * (1 - 1e-9)).any(axis=0)
            for what, m in (("all peaks", np.ones(n, bool)), ("peaks indexed by some grain only", claimed)):
                if not m.any():
                    continue
                order = perm_rng.permutation(ng).tolist()
                cfh = columnfile.colfile_from_dict({"gx": gv[m, 0].copy(), "gy": gv[m, 1].copy(), "gz": gv[m, 2].copy()})
                gl = [grainmod.grain(ubis[i].copy()) for i in order]
                with contextlib.redirect_stdout(io.StringIO()), contextlib.redirect_stderr(io.StringIO()):
                    ok, e = guard(nb_utils.assign_peaks_to_grains, gl, cfh, tol)
                if not ok:
                    fails.append(exc_failure("nb_utils.assign_peaks_to_grains", e))
                    break
                lab = np.asarray(cfh.grain_id)
                back = np.where(lab >= 0, np.array(order)[np.clip(lab, 0, ng - 1)], -1)     # list position -> grain
                sub = tuple(x[:, m] if x.ndim == 2 else x[m] for x in ref1)
                compare("nb_utils.assign_peaks_to_grains (%s, grain order %s)" % (what, order[:6]), back,
                        np.asarray(cfh.drlv2), sub, 1.0, fails)
                if fails:
                    break
        # ---- indexer.fight_over_peaks
        cImageD11.cimaged11_omp_set_num_threads(case["threads"][-1])
        # max_grains limits how many orientations one search pass may add, not how many compete for the peaks
        mg = [100, 100, max(1, ng // 2), 1, ng][case["seed"] % 5]
        if case["seed"] % 2:
            ix = indexing.indexer(gv=gv, hkl_tol=tol, max_grains=mg)
        else:
            # the tolerance assigned to the attribute after construction, as indexing.index and do_index do
            ix = indexing.indexer(gv=gv, hkl_tol=0.3 if tol < 0.1 else 0.01, max_grains=mg)
            ix.hkl_tol = tol
        ix.ubis = [u.copy() for u in ubis]
        ok, e = guard(ix.fight_over_peaks)
        if not ok:
            fails.append(exc_failure("fight_over_peaks", e))
        else:
            compare("indexer.fight_over_peaks (max_grains=%d, %d orientations)" % (mg, ng), ix.ga, ix.drlv2, ref, 2.0,
                    fails)
            hist = np.bincount(np.asarray(ix.ga)[np.asarray(ix.ga) >= 0], minlength=ng)
            if len(ix.gas) != ng or not np.array_equal(np.asarray(ix.gas), hist):
                fails.append(fail("histogram", "fight_over_peaks: per-grain counts %s differ from the histogram of "
                                  "the labels %s" % (np.asarray(ix.gas)[:8].tolist(), hist[:8].tolist()),
                                  entry="fight_over_peaks"))
        # ---- the same on an indexer that has assigned its peaks to rings first (as saveindexing / the GUI do):
        #      the ring assignment plays no part in the competition, peaks off every ring included
        dsmax = float(np.sqrt((gv * gv).sum(axis=1)).max()) if n else 0.0
        nhkl_est = 4.19 * dsmax ** 3 / abs(np.linalg.det(gens.busing_levy_B(case["cell"])))
        if n <= 3000 and nhkl_est < 20000:           # ring generation is a Python loop over all hkl
            from ImageD11 import unitcell
            ds_tol = [0.0005, 0.002, 0.01][case["seed"] % 3]
            ok, ix2 = guard(indexing.indexer, unitcell=unitcell.unitcell(case["cell"], "P"), gv=gv, hkl_tol=tol,
                            ds_tol=ds_tol)
            if ok:
                ok, e = guard(ix2.assigntorings)
            if ok:
                ix2.ubis = [u.copy() for u in ubis]
                ok, e = guard(ix2.fight_over_peaks)
                if not ok:
                    fails.append(exc_failure("fight_over_peaks after assigntorings", e))
                else:
                    compare("indexer.fight_over_peaks after assigntorings (ds_tol %g, %d peaks on no ring)" %
                            (ds_tol, int((np.asarray(ix2.ra) < 0).sum())), ix2.ga, ix2.drlv2, ref, 2.0, fails)
                    hist = np.bincount(np.asarray(ix2.ga)[np.asarray(ix2.ga) >= 0], minlength=ng)
                    if len(ix2.gas) != ng or not np.array_equal(np.asarray(ix2.gas), hist):
                        fails.append(fail("histogram", "fight_over_peaks after assigntorings: per-grain counts differ "
                                          "from the histogram of the labels", entry="fight_over_peaks/rings"))
                    # which peaks one orientation indexes (getind, with the scratch arrays scorethem hands in, here with
                    # left-over content): all peaks within the tolerance, on a ring or not
                    if not fails:
                        g0 = case["seed"] % ng
                        ok, msk = guard(ix2.getind, ubis[g0].copy(), None, np.zeros(n), np.full(n, 5, np.int32))
                        if not ok:
                            fails.append(exc_failure("indexer.getind", msk))
                        else:
                            lim_ = tol * tol
                            sure_ = np.abs(E[g0] - lim_) > 1e-9 * lim_
                            if np.shape(msk) != (n,) or ((np.asarray(msk, bool) != (E[g0] < lim_)) & sure_).any():
                                fails.append(fail("label", "indexer.getind (scratch arrays with left-over content, %d peaks "
                                                  "on no ring): %d peaks returned, %d lie within the tolerance" %
                                                  (int((np.asarray(ix2.ra) < 0).sum()), int(np.sum(msk)),
                                                   int((E[g0] < lim_).sum())), entry="getind"))
                    # the same through saveindexing on an indexer that read a g-vector file (the competition runs
                    # inside it, then one report per grain is written): the object afterwards holds the orientations
                    # it was given and their assignment
                    if not fails and case["seed"] % 2 == 0:
                        import os, io, contextlib
                        tmpd = os.environ.get("VERIF_TMP", ".")
                        fgve = os.path.join(tmpd, "c07_%d.gve" % os.getpid())
                        fidx = os.path.join(tmpd, "c07_%d.idx" % os.getpid())
                        with open(fgve, "w") as fh:
                            fh.write("%r %r %r %r %r %r P\n" % tuple(float(x) for x in case["cell"]))
                            fh.write("# wavelength = 0.05\n# wedge = 0.0\n# ds h k l\n")
                            fh.write("#  xr yr zr xc yc ds eta omega\n")
                            for row in gv:
                                fh.write("%r %r %r 0.0 0.0 %r 10.0 20.0\n" % (float(row[0]), float(row[1]), float(row[2]),
                                                                            float(np.sqrt((row * row).sum()))))

                        def viafile():
                            ix3 = indexing.indexer(hkl_tol=tol, ds_tol=ds_tol)
                            ix3.readgvfile(fgve, quiet=True)
                            ix3.assigntorings()
                            ix3.ubis = [u.copy() for u in ubis]
                            ix3.saveindexing(fidx)
                            return ix3
                        with contextlib.redirect_stdout(io.StringIO()), np.errstate(all="ignore"):
                            ok, ix3 = guard(viafile)
                        for f_ in (fgve, fidx):
                            if os.path.exists(f_):
                                os.remove(f_)
                        if not ok:
                            fails.append(exc_failure("readgvfile / saveindexing", ix3))
                        elif not np.array_equal(np.asarray(ix3.gv), gv):
                            raise RuntimeError("harness: g-vectors changed by the text file")
                        elif any(np.abs(np.asarray(a_) - b_).max() > 0 for a_, b_ in zip(ix3.ubis, ubis)):
                            fails.append(fail("inputs", "saveindexing changed the orientation matrices held by the indexer "
                                              "(by up to %.3g): labels and errors kept on the object no longer belong to "
                                              "them" % max(np.abs(np.asarray(a_) - b_).max() for a_, b_ in zip(ix3.ubis, ubis)),
                                              entry="saveindexing"))
                        else:
                            compare("indexer.saveindexing (competition inside)", ix3.ga, ix3.drlv2, ref, 2.0, fails)
                    if rec is not None:
                        rec.note("off_ring_peaks_in_competition", int((np.asarray(ix2.ra) < 0).sum()), "sum")
            elif rec is not None:
                rec.exclude("assigntorings refused the peak list (no competition after ring assignment run)")
    finally:
        cImageD11.cimaged11_omp_set_num_threads(2)
    for nm in written(snap, gv=gv, ubis=np.array(ubis)):
        fails.append(fail("inputs", "the assignment routines modified the %s they were given" % nm, entry="inputs"))
    if rec is not None:
        comp = int(((E < tol * tol).sum(axis=0) >= 2).sum())
        nt = comp > 0 or (n > 4096 and max(case["threads"]) > 1)
        rec.case(case, nt, ["twins:" + case["twins"]] + (["n>4096"] if n > 4096 else []) +
                 (["competition"] if comp else []))
        rec.note("peaks_with_competition", comp)
        rec.note("tied_peaks", int(tie.sum()))
        if amb.any():
            rec.exclude("peak within rounding error of the tolerance boundary", int(amb.sum()))
    return fails


# ------------------------------------------------------------------ assignlabels with per-grain g-vectors

@st.composite
def alcases(draw):
    index = draw(st.integers(0, 16383))
    mseed = draw(st.integers(0, 2 ** 20))
    ng = draw(st.integers(1, 6))
    layout = draw(st.sampled_from(["generic", "layer", "grid", "origin", "line"]))
    tol = draw(st.sampled_from([0.02, 0.05, 0.1, 0.25]))
    fam, cell = draw(gens.cells(families=("cubic", "hexagonal", "orthorhombic"), lo=3.0, hi=6.0))
    seed = draw(st.integers(0, 2 ** 31 - 1))
    nthreads = draw(st.sampled_from([1, 2, 16]))
    naming = draw(st.sampled_from(["position", "position", "offset", "scrambled"]))
    return dict(index=index, mseed=mseed, ng=ng, layout=layout, tol=tol, cell=[float(x) for x in cell],
                family=fam, seed=seed, threads=nthreads, naming=naming)


def build_al(case):
    p, _, _, _ = c01.params_from(case["index"], case["mseed"])
    p = dict(p)
    p["wavelength"] = 0.25
    p["distance"] = 150000.0
    p["y_size"] = np.sign(p["y_size"]) * 100.0
    p["z_size"] = np.sign(p["z_size"]) * 100.0
    p["y_center"] = 1000.0
    p["z_center"] = 1050.0
    rng = np.random.RandomState(case["seed"] % (2 ** 32))
    ng = case["ng"]
    B = gens.busing_levy_B(case["cell"])
    UBs = [gens.rotation_from_seed(int(rng.randint(0, 2 ** 31 - 1))) @ B for _ in range(ng)]
    lay = case["layout"]
    if lay == "generic":
        ts = rng.uniform(-500, 500, (ng, 3))
    elif lay == "layer":
        ts = np.column_stack([rng.uniform(-500, 500, ng), rng.uniform(-500, 500, ng), np.zeros(ng)])
    elif lay == "grid":
        ts = np.column_stack([rng.randint(-2, 3, ng) * 100.0, rng.randint(-2, 3, ng) * 100.0,
                              rng.randint(-1, 2, ng) * 100.0])
    elif lay == "line":
        ts = np.column_stack([rng.uniform(-500, 500, ng), np.full(ng, 40.0), np.full(ng, -30.0)])
    else:
        ts = np.zeros((ng, 3))
    # reflections of each grain up to a d* limit, forward simulated with the grain's own position
    hk = np.mgrid[-4:5, -4:5, -4:5].reshape(3, -1)
    hk = hk[:, np.abs(hk).sum(axis=0) > 0]
    sc, fc, om, own = [], [], [], []
    for g in range(ng):
        gvec = UBs[g] @ hk
        ds = np.sqrt((gvec * gvec).sum(axis=0))
        sel = ds < 1.2
        sim = O.geo_simulate(gvec[:, sel], p, ts[g])
        for k in range(2):
            m = sim["ok"][k] & (sim["sc"][k] > 0) & (sim["sc"][k] < 2100) & (sim["fc"][k] > 0) & (sim["fc"][k] < 2100)
            sc.append(sim["sc"][k][m])
            fc.append(sim["fc"][k][m])
            om.append(sim["omega"][k][m])
            own.append(np.full(int(m.sum()), g))
    sc, fc, om, own = [np.concatenate(x) for x in (sc, fc, om, own)]
    # detector noise and some spurious peaks
    nsp = max(3, len(sc) // 10)
    sc = np.concatenate([sc + rng.uniform(-0.3, 0.3, len(sc)), rng.uniform(0, 2048, nsp)])
    fc = np.concatenate([fc + rng.uniform(-0.3, 0.3, len(fc)), rng.uniform(0, 2048, nsp)])
    om = np.concatenate([om, rng.uniform(-180, 180, nsp)])
    own = np.concatenate([own, np.full(nsp, -1)])
    order = rng.permutation(len(sc))
    if case["seed"] % 3 == 1:
        # a peak table as a scan delivers it: omega is the frame angle (1 or 0.25 degree steps), rows in acquisition
        # order, so that consecutive rows share exactly the same omega
        step = 1.0 if case["seed"] % 2 else 0.25
        om = np.round(om / step) * step
        order = order[np.argsort(om[order], kind="stable")]
    return p, UBs, ts, sc[order], fc[order], om[order], own[order]


def check_al(case, rec=None):
    from ImageD11 import refinegrains, columnfile, parameters, cImageD11
    p, UBs, ts, sc, fc, om, own = build_al(case)
    ng, n, tol = len(UBs), len(sc), case["tol"]
    if n == 0:
        return []
    ubis = [np.linalg.inv(u) for u in UBs]
    gvs = [np.ascontiguousarray(O.geo_forward(sc, fc, om, p, ts[g])["g"].T) for g in range(ng)]
    ref = dense_reference(ubis, gvs, tol, 1.0)
    fails = []
    ok, o = guard(refinegrains.refinegrains, tolerance=tol, OmFloat=False)
    if not ok:
        return [exc_failure("refinegrains()", o)]
    o.parameterobj = parameters.parameters(**{k: v for k, v in p.items()})
    cf = columnfile.colfile_from_dict({"sc": sc.copy(), "fc": fc.copy(), "omega": om.copy(),
                                       "drlv2": np.ones(n), "labels": np.ones(n) - 2,
                                       "sum_intensity": np.ones(n), "Number_of_pixels": np.ones(n)})
    if case["seed"] % 3 == 0:
        # a peak file that already carries lab coordinates from an earlier, different geometry (saved by another
        # program run): the assignment works from sc, fc and the current parameters
        stale = O.geo_xyz_lab(sc, fc, dict(p, distance=p["distance"] * 1.02, y_center=p["y_center"] + 3.0))
        for k, nm in enumerate(("xl", "yl", "zl")):
            cf.addcolumn(stale[k].copy(), nm)
    o.scannames = ["scan"]
    o.scantitles["scan"] = list(cf.titles)
    o.scandata["scan"] = cf
    # grain names are the integers written in the labels column; they need not be list positions
    # (filtergrain.py keeps one grain under its own number, a subset of a map keeps the original numbers)
    naming = case.get("naming", "position")
    if naming == "offset":
        names = [g + 3 for g in range(ng)]
    elif naming == "scrambled":
        names = [int(x) for x in np.random.RandomState(case["seed"] % 9973).permutation(3 * ng + 2)[:ng]]
    else:
        names = list(range(ng))
    for g in range(ng):
        o.grainnames.append(names[g])
        o.ubisread[names[g]] = ubis[g].copy()
        o.translationsread[names[g]] = ts[g].copy()
    cImageD11.cimaged11_omp_set_num_threads(case["threads"])
    try:
        ok, e = guard(o.generate_grains)
        if ok:
            ok, e = guard(o.assignlabels, True)
    finally:
        cImageD11.cimaged11_omp_set_num_threads(2)
    if not ok:
        return [exc_failure("assignlabels", e)]
    named = np.asarray(o.scandata["scan"].labels).astype(int)
    back = {nm: g for g, nm in enumerate(names)}
    back[-1] = -1
    if not set(np.unique(named).tolist()) <= set(back):
        return [fail("label", "assignlabels wrote labels %s, the grain names are %s" %
                     (sorted(set(np.unique(named).tolist()) - set(back))[:5], names), entry="assignlabels")]
    labels = np.array([back[x] for x in named.tolist()], int)
    drlv2 = np.asarray(o.scandata["scan"].drlv2, float)
    compare("refinegrains.assignlabels", labels, drlv2, ref, 1.0, fails,
            extra=" [layout %s, translations %s]" % (case["layout"], np.round(ts[:4], 1).tolist()))
    E, exp, expd, tie, amb, Em = ref
    for g in range(ng):
        gr = o.grains[(names[g], "scan")]
        ind = np.sort(np.asarray(gr.ind))
        if not np.array_equal(ind, np.nonzero(labels == g)[0]) or gr.npks != len(ind):
            fails.append(fail("histogram", "assignlabels: grain %d holds %d peaks, labels column says %d" %
                              (names[g], gr.npks, int((labels == g).sum())), entry="assignlabels"))
            break
    if rec is not None:
        comp = int(((E < min(tol * tol, 1.0)).sum(axis=0) >= 2).sum())
        good = int(((exp == own) & (own >= 0)).sum())
        rec.case(case, ng >= 2 and good > 0, ["assignlabels", "layout:" + case["layout"], "names:" + naming] +
                 (["competition"] if comp else []))
        rec.note("assignlabels_peaks", n)
        if amb.any():
            rec.exclude("peak within rounding error of the tolerance boundary", int(amb.sum()))
    return fails


def run_shard(rec):
    quick = rec.tier == "quick"
    hyp_run(rec, "assign", cases(False), lambda c: check(c, rec), max_examples=120 if quick else 1200)
    hyp_run(rec, "assign_big", cases(True), lambda c: check(c, rec), max_examples=4 if quick else 30, shrink=False)
    hyp_run(rec, "assignlabels", alcases(), lambda c: check_al(c, rec), max_examples=25 if quick else 300)


def replay(sub, case, rec):
    return check_al(case, rec) if sub == "assignlabels" else check(case, rec)
