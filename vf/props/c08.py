"""C08 - the indexer reports only genuine grains and finds all of them on ideal data."""
import time
import numpy as np
from hypothesis import strategies as st
from vf import gens, oracles
from vf.runner import hyp_run, run_cases, guard, fail, exc_failure

RULE = ("completeness: lattice in {cubic F/I/P, hexagonal, tetragonal, orthorhombic, monoclinic, rhombohedral(R on "
        "hexagonal axes), rhombohedral P, pseudo-orthorhombic monoclinic, pseudo-cubic tetragonal} x 1-8 grains with uniform random orientations x all allowed hkl to a d* "
        "limit giving 40-700 reflections per grain, exact g = U.B.h, shuffled; parameters hkl_tol in {0.01..0.05}, "
        "cosine_tol in {0.002, cos(89.9), negative 'all matches' mode}, ds_tol, minpks = 0.5-0.9 x reflections, "
        "uniqueness 0.5; grains are 'well separated' by construction (no true UBI indexes > 10% of another grain's "
        "peaks; such draws are re-oriented and counted); soundness: the same plus Gaussian noise 1e-4..5e-3, 0-50% "
        "deleted peaks, 0-100% spurious peaks, low minpks, large tolerances; drivers indexer.score_all_pairs, "
        "indexing.index(colfile), do_index (six generating rings, one ring when two of its peaks fix the lattice, rings beyond those of an earlier run on the same unitcell object); sub-checks axial (only the (100),(010),(001) rings of an orthogonal P cell generate), ringtable (pseudo-symmetric cell, ds_tol 0.001-0.01, generating ring named by its number), onering (data on the first ring only); a grain is required when its own orientation indexes more than the minimum in force; oracle: reference recount of indexed peaks, handedness, cell within "
        "tolerance, uniqueness-history invariant, unimodular-equivalence with the simulated grains, ring assignment "
        "by brute force; non-trivial = >= 2 grains, or a non-cubic lattice, or > 20% spurious peaks; distinct = hash "
        "of the case")
ASSUMPTIONS = ["'well separated' = no grain's true UBI indexes more than 10% of another grain's peaks within hkl_tol",
               "cell parameters of a reported UBI are compared (3*hkl_tol relative, radians for angles) only when the "
               "indexed reflections constrain the cell: cond(sum h h^T) < 1e3 and >= 12 indexed peaks",
               "peaks within 1e-9 relative of the hkl tolerance boundary may be counted either way"]

LATTICES = {
    "cubicF": ([4.05, 4.05, 4.05, 90, 90, 90], "F"), "cubicI": ([2.87, 2.87, 2.87, 90, 90, 90], "I"),
    "cubicP": ([3.9, 3.9, 3.9, 90, 90, 90], "P"), "hexagonal": ([2.95, 2.95, 4.68, 90, 90, 120], "P"),
    "tetragonal": ([4.59, 4.59, 2.96, 90, 90, 90], "P"), "orthorhombic": ([4.1, 5.2, 6.3, 90, 90, 90], "P"),
    "monoclinic": ([5.1, 6.2, 7.3, 90, 103, 90], "P"), "rhombR": ([4.76, 4.76, 12.99, 90, 90, 120], "R"),
    "rhombP": ([5.0, 5.0, 5.0, 70, 70, 70], "P"),
    # pseudo-orthorhombic: several hkl assignments of one pair of peaks agree within the cosine tolerance
    "monoclinic_pseudo": ([5.1, 5.3, 5.2, 90, 90.6, 90], "P"),
    # pseudo-cubic: which rings merge depends on ds_tol (0.004, 0.005, 0.01 give different ring tables)
    "tetragonal_pseudo": ([4.0, 4.0, 4.05, 90, 90, 90], "P"),
}
COSTOL = [0.002, float(np.cos(np.radians(89.9))), -0.002]


def shard_layout(tier):
    return [("opt", None)] * (8 if tier == "quick" else 16)


@st.composite
def cases(draw, sound, small=False):
    lat = draw(st.sampled_from(sorted(LATTICES)))
    scale = draw(st.floats(0.9, 1.3, allow_nan=False))
    ng = draw(st.integers(1, 8 if not sound else 5))
    # the indexer loops over all ring pairs in python: keep the number of rings of low symmetry lattices bounded
    nrefl = draw(st.sampled_from([60, 120, 250, 500] if lat.startswith("cubic") or lat in ("hexagonal", "rhombR")
                                 else [40, 60, 120]))
    hkl_tol = draw(st.sampled_from([0.01, 0.02, 0.05] if not sound else [0.01, 0.02, 0.05, 0.1]))
    cosine_tol = draw(st.sampled_from(COSTOL))
    ds_tol = draw(st.sampled_from([0.004, 0.01, 0.001]))
    frac = draw(st.sampled_from([0.5, 0.7, 0.9]))
    seed = draw(st.integers(0, 2 ** 31 - 1))
    if small:                    # quick tier: bound the size of the peak list
        ng = min(ng, 5)
        nrefl = min(nrefl, 250)
        if ng * nrefl > 800:
            ng = max(1, 800 // nrefl)
    if cosine_tol < 0 and (ng > 3 or nrefl > 120):
        cosine_tol = 0.002          # the 'all matches' mode is quadratic in the ring population: small cases only
    c = dict(lattice=lat, scale=scale, ng=ng, nrefl=nrefl, hkl_tol=hkl_tol, cosine_tol=cosine_tol, ds_tol=ds_tol,
             frac=frac, seed=seed, sound=sound, uniqueness=0.5, driver="score_all_pairs")
    if sound:
        c["noise"] = draw(st.sampled_from([1e-4, 5e-4, 2e-3, 5e-3]))
        c["delete"] = draw(st.sampled_from([0.0, 0.2, 0.5]))
        c["spurious"] = draw(st.sampled_from([0.0, 0.3, 1.0]))
        # "near": just below what a grain has, so that with noise of the size of the tolerance a fit can gain or lose
        # the deciding peaks
        c["minpks"] = draw(st.sampled_from([5, 10, 20, "half", "near", "near"]))
        c["uniqueness"] = draw(st.sampled_from([0.3, 0.5, 0.8]))
    else:
        c["driver"] = draw(st.sampled_from(["score_all_pairs", "score_all_pairs", "index", "do_index"]))
    # search histories on one indexer object: a second pass (optionally after assigntorings again), or a second
    # (minpks, tol) entry for indexing.index as in its default argument
    if c["driver"] in ("score_all_pairs", "index") and ng * nrefl <= (400 if small else 1500):
        c["passes"] = draw(st.sampled_from([1, 2, 2, "rings+2", "reset2"]))
    if not sound:
        # incomplete, grain dependent coverage of the rings: reflections within 25 or 40 degrees of the rotation axis
        # never diffract (ideal data all the same); the required fraction is lowered accordingly
        c["cone"] = draw(st.sampled_from([0, 0, 25, 40])) if c["driver"] != "do_index" else 0
        if c["cone"]:
            c["frac"] = 0.5
    if c["driver"] == "do_index":
        # orientations generated from one ring only; or the same unitcell object used for an earlier run on the
        # low-angle rings (ring tables shrink and grow again)
        c["dohist"] = draw(st.sampled_from(["none", "single_forgen", "shared_unitcell", "shared_unitcell"]))
    return c


def reflections(cell, sym, nrefl):
    """all allowed hkl up to a d* limit giving about nrefl reflections (harness enumeration)"""
    from vf.props.c03 import brute
    B = gens.busing_levy_B(cell)
    vol = 1.0 / abs(np.linalg.det(B))          # real cell volume
    mult = {"P": 1, "I": 2, "F": 4, "R": 3, "A": 2, "B": 2, "C": 2}[sym]
    dsmax = (nrefl * mult * 3 / (4 * np.pi * vol)) ** (1 / 3.0)
    S, _ = brute(cell, sym, dsmax)
    hk = np.array(sorted(S), float)
    return hk, dsmax


def build(case):
    rng = np.random.RandomState(case["seed"] % (2 ** 32))
    cell0, sym = LATTICES[case["lattice"]]
    cell = [x * case["scale"] for x in cell0[:3]] + list(cell0[3:])
    hk, dsmax = reflections(cell, sym, case["nrefl"])
    B = gens.busing_levy_B(cell)
    if case.get("onering"):
        # a very small d* range: the data hold the first powder ring only
        dsq = ((hk @ B.T) ** 2).sum(axis=1)
        hk = hk[dsq <= dsq.min() * (1 + 1e-9)]
        dsmax = float(np.sqrt(dsq.min())) * 1.01
    UBs = []
    redraws = 0
    tol = case["hkl_tol"]
    while len(UBs) < case["ng"]:
        UB = gens.rotation_from_seed(int(rng.randint(0, 2 ** 31 - 1))) @ B
        ubi = np.linalg.inv(UB)
        okk = True
        for other in UBs:
            e1, _ = oracles.lattice_errors(ubi, (other @ hk.T).T)
            e2, _ = oracles.lattice_errors(np.linalg.inv(other), (UB @ hk.T).T)
            if (e1 < tol * tol).mean() > 0.1 or (e2 < tol * tol).mean() > 0.1:
                okk = False
        if okk:
            UBs.append(UB)
        else:
            redraws += 1
            if redraws > 50:
                break
    gvs, owner = [], []
    for g, UB in enumerate(UBs):
        keep = np.ones(len(hk), bool)
        if case["sound"] and case["delete"]:
            keep = rng.random_sample(len(hk)) >= case["delete"]
        gg = (UB @ hk[keep].T).T
        if case.get("cone"):
            gg = gg[np.abs(gg[:, 2]) < np.cos(np.radians(case["cone"])) * np.linalg.norm(gg, axis=1)]
        if case["sound"]:
            gg = gg + rng.standard_normal(gg.shape) * case["noise"]
        gvs.append(gg)
        owner.append(np.full(len(gg), g))
    gv = np.concatenate(gvs)
    owner = np.concatenate(owner)
    if case["sound"] and case["spurious"]:
        nsp = int(len(gv) * case["spurious"])
        sp = rng.standard_normal((nsp, 3))
        sp = sp / np.linalg.norm(sp, axis=1)[:, None]
        # half of them exactly on rings, half anywhere
        ring_ds = np.sqrt(((B @ hk.T) ** 2).sum(axis=0))
        mod = np.where(rng.random_sample(nsp) < 0.5, ring_ds[rng.randint(0, len(ring_ds), nsp)],
                       rng.uniform(0.1, dsmax, nsp))
        gv = np.concatenate([gv, sp * mod[:, None]])
        owner = np.concatenate([owner, np.full(nsp, -1)])
    o = rng.permutation(len(gv))
    return cell, sym, hk, UBs, np.ascontiguousarray(gv[o]), owner[o], redraws


def ring_fixes_orientation(table, B, ctol, table2=None):
    """True when two peaks, one of ring `table` and one of ring `table2` (the same ring by default), determine the
    lattice: every two assignments (h1, h2), (h1', h2') of table members to a pair of peaks whose angles agree within
    the cosine tolerance give the same lattice (they differ by a rotation of the lattice).  Otherwise two peaks leave
    a choice between different lattices (the two-peak ambiguity: mirror images through the plane of the two vectors)
    and these rings alone need not find the grain."""
    hk1 = np.array(sorted(table), float)
    hk2 = hk1 if table2 is None else np.array(sorted(table2), float)
    if len(hk1) > 12 or len(hk2) > 12:
        return False
    n1 = hk1 @ B.T
    n1 /= np.linalg.norm(n1, axis=1)[:, None]
    n2 = hk2 @ B.T
    n2 /= np.linalg.norm(n2, axis=1)[:, None]
    C = n1 @ n2.T
    pairs = [(a, b) for a in range(len(hk1)) for b in range(len(hk2)) if abs(C[a, b]) < 0.98]
    if not pairs:
        return False
    Bi = np.linalg.inv(B)

    def frame(a, b):
        t1 = n1[a]
        t3 = np.cross(n1[a], n2[b])
        t3 /= np.linalg.norm(t3)
        return np.array([t1, np.cross(t3, t1), t3]).T
    F = {p_: frame(*p_) for p_ in pairs}
    for x, (a, b) in enumerate(pairs):
        for (a2, b2) in pairs[x + 1:]:
            if abs(C[a, b] - C[a2, b2]) < ctol + 1e-6:
                # rotation taking the first assignment's crystal frame onto the second's
                Q = F[(a2, b2)] @ F[(a, b)].T
                M = Bi @ Q @ B
                if np.abs(M - np.rint(M)).max() > 1e-6:
                    return False
    return True


@st.composite
def oneringcases(draw, small=False):
    """only the first ring was recorded (one ring in the table); its members are not all parallel for these lattices"""
    c = draw(cases(False, small))
    c["lattice"] = draw(st.sampled_from(["cubicP", "cubicF", "cubicI", "tetragonal", "rhombP"]))
    c["driver"] = draw(st.sampled_from(["score_all_pairs", "index", "do_index"]))
    c["onering"] = True
    c["cone"] = 0
    c["frac"] = 0.5
    c["ng"] = min(c["ng"], 4)
    c["hkl_tol"] = min(c["hkl_tol"], 0.02)
    c.pop("dohist", None)
    return c


@st.composite
def ringtablecases(draw, small=False):
    """do_index on a pseudo-symmetric cell whose ring table depends on the d* tolerance (which rings merge), with the
    tolerance away from the indexer's default and the generating ring named by its number in the user's table"""
    c = draw(cases(False, small))
    c["lattice"] = draw(st.sampled_from(["tetragonal_pseudo", "tetragonal_pseudo", "monoclinic_pseudo"]))
    c["driver"] = "do_index"
    c["dohist"] = "single_forgen"
    c["ds_tol"] = draw(st.sampled_from([0.001, 0.002, 0.01]))
    c["cone"] = 0
    c["frac"] = 0.5
    c["ng"] = min(c["ng"], 4)
    c["nrefl"] = min(c["nrefl"], 120)
    c["seed"] = c["seed"] | 1                 # the last qualifying ring among the first ten
    c.pop("passes", None)
    return c


@st.composite
def axialcases(draw, small=False):
    """long wavelength / small d* range: only the axial rings (100), (010), (001) of an orthogonal primitive cell are
    offered for generating orientations, so every usable pair of peaks subtends 90 degrees"""
    c = draw(cases(False, small))
    c["lattice"] = draw(st.sampled_from(["cubicP", "tetragonal", "orthorhombic"]))
    c["driver"] = "do_index"
    c["dohist"] = "axial_forgen"
    c["cone"] = 0
    c["frac"] = min(c["frac"], 0.7)
    c["nrefl"] = min(c["nrefl"], 120)
    c.pop("passes", None)
    return c


def counts(ubi, gv, tol):
    e, hi = oracles.lattice_errors(ubi, gv)
    t2 = tol * tol
    return e < t2 * (1 - 1e-9), e < t2 * (1 + 1e-9), hi


def check(case, rec=None):
    from ImageD11 import indexing, unitcell, columnfile, parameters, cImageD11
    indexing.loglevel = 10
    t_start = time.time()
    cell, sym, hk, UBs, gv, owner, redraws = build(case)
    ng = len(UBs)
    tol = case["hkl_tol"]
    nref = len(hk)
    if case["sound"]:
        minpks = {"half": int(0.5 * nref), "near": int(0.85 * nref)}.get(case["minpks"], case["minpks"])
    else:
        minpks = int(case["frac"] * nref)
    fails = []
    where = "%s %s ng=%d nrefl=%d hkl_tol=%g cosine_tol=%g ds_tol=%g minpks=%s driver=%s passes=%s%s" % (
        case["lattice"], sym, ng, nref, tol, case["cosine_tol"], case["ds_tol"], minpks, case["driver"],
        case.get("passes", 1), " do_index history: " + case["dohist"] if case.get("dohist", "none") != "none" else "")
    cImageD11.cimaged11_omp_set_num_threads(2)
    uc = unitcell.unitcell(cell, sym)
    passes = case.get("passes", 1)
    single_round = passes in (1, "reset2")
    dohist_used = "none"
    minpks_low = minpks
    if case["driver"] == "score_all_pairs":
        ok, ind = guard(indexing.indexer, unitcell=uc, gv=gv, wavelength=0.3, minpks=minpks, hkl_tol=tol,
                        cosine_tol=case["cosine_tol"], ds_tol=case["ds_tol"], max_grains=100,
                        uniqueness=case["uniqueness"])
        if ok:
            ok, e = guard(ind.score_all_pairs)
            if not ok:
                return [exc_failure("score_all_pairs", e)]
            if passes == "reset2":
                # the object put back to its initial state and searched again, twice (a parameter scan on one
                # indexer): the last search is a first search
                for _ in range(2):
                    ok, e = guard(ind.reset)
                    if ok:
                        ok, e = guard(ind.score_all_pairs)
                    if not ok:
                        return [exc_failure("reset / score_all_pairs", e)]
            elif passes != 1:
                if passes == "rings+2":
                    ok, e = guard(ind.assigntorings)
                    if not ok:
                        return [exc_failure("assigntorings (second time)", e)]
                ok, e = guard(ind.score_all_pairs)
                if not ok:
                    return [exc_failure("score_all_pairs (second pass)", e)]
        else:
            return [exc_failure("indexer()", ind)]
    else:
        cf = columnfile.colfile_from_dict({"gx": gv[:, 0].copy(), "gy": gv[:, 1].copy(), "gz": gv[:, 2].copy(),
                                           "omega": np.linspace(0, 179.5, len(gv))})
        pars = {"cell__a": cell[0], "cell__b": cell[1], "cell__c": cell[2], "cell_alpha": cell[3],
                "cell_beta": cell[4], "cell_gamma": cell[5], "cell_lattice_[P,A,B,C,I,F,R]": sym,
                "wavelength": 0.3}
        cf.parameters = parameters.parameters(**pars)
        if case["driver"] == "index":
            npk_tol = [(minpks, tol)]
            if passes != 1:
                minpks_low = max(3, (2 * minpks) // 3)
                npk_tol.append((minpks_low, tol))
            npk_before = list(npk_tol)
            ok, ind = guard(indexing.index, cf, npk_tol=npk_tol, cosine_tol=abs(case["cosine_tol"]),
                            ds_tol=case["ds_tol"], max_grains=100, rmulmax=1000, log_level=10)
            if not ok:
                return [exc_failure("indexing.index", ind)]
            if list(npk_tol) != npk_before:
                fails.append(fail("inputs", "indexing.index changed the npk_tol list it was given (%s -> %s): the next "
                                  "data set indexed with the same schedule gets fewer passes" % (npk_before, list(npk_tol)),
                                  inv="inputs"))
            # the same function called again in this process with its default schedule ([(400, .01), (200, .02)])
            # must still run its passes: an indexer comes back having tried them (minpks is that of the last pass)
            ok, ind_d = guard(indexing.index, cf, cosine_tol=abs(case["cosine_tol"]), ds_tol=case["ds_tol"],
                              max_grains=5, rmulmax=2, maxpairs=1, log_level=10)
            if ok and (ind_d.minpks, ind_d.hkl_tol) != (200, 0.02):
                fails.append(fail("inputs", "indexing.index with its default schedule ended with minpks=%r hkl_tol=%r, the "
                                  "last entry of the documented default is (200, 0.02)" % (ind_d.minpks, ind_d.hkl_tol),
                                  inv="defaults"))
        else:
            probe = indexing.indexer(unitcell=uc, gv=gv, ds_tol=case["ds_tol"])
            probe.assigntorings()
            rings = [r for r in range(len(probe.unitcell.ringds)) if (probe.ra == r).sum() > 0]
            forgen = rings[:6]
            dohist = case.get("dohist", "none")
            if dohist == "single_forgen":
                # a ring fixes the orientations when every simulated grain has two peaks assigned to it that are not
                # (anti)parallel.  Judged on the peaks as assigned: with close rings and a wide ds_tol the members of
                # a ring of the table can be handed to its neighbour, leaving Friedel pairs only
                Bm = gens.busing_levy_B(cell)
                # the first ring that qualifies, or the last one among the first ten (ring numbers are those of the
                # table made with this ds_tol)
                for rr in (rings[:6] if case["seed"] % 2 == 0 else rings[:10][::-1]):
                    good = True
                    table = set(tuple(int(x) for x in h) for h in probe.unitcell.ringhkls[probe.unitcell.ringds[rr]])
                    for g_ in range(ng):
                        hs = gv[(owner == g_) & (probe.ra == rr)]
                        # ... and only peaks whose own hkl is in the ring's table count (the pair angles searched
                        # for are those of the table)
                        if len(hs):
                            hint = np.rint(hs @ np.linalg.inv(UBs[g_]).T).astype(int)
                            hs = hs[[tuple(h) in table for h in hint.tolist()]]
                        if len(hs) < 2:
                            good = False
                            break
                        hs = hs / np.linalg.norm(hs, axis=1)[:, None]
                        if not (np.abs(hs @ hs.T) < 0.9).any():
                            good = False
                            break
                    if good and ring_fixes_orientation(table, Bm, abs(case["cosine_tol"])):
                        forgen = [rr]
                        break
                else:
                    dohist = "single_forgen:no_ring_fixes_the_orientation"
            elif dohist == "axial_forgen":
                Bm = gens.busing_levy_B(cell)
                tabs = {rr: set(tuple(int(x) for x in h) for h in probe.unitcell.ringhkls[probe.unitcell.ringds[rr]])
                        for rr in rings}
                ax = [rr for rr in rings if all(sorted(abs(x) for x in h) == [0, 0, 1] for h in tabs[rr])][:3]
                okpairs = [(a_, b_) for i_, a_ in enumerate(ax) for b_ in ax[i_:]
                           if ring_fixes_orientation(tabs[a_], Bm, abs(case["cosine_tol"]), tabs[b_])]
                complete_rings = all(((probe.ra == rr) & (owner == g_)).sum() == len(tabs[rr])
                                     for rr in ax for g_ in range(ng))
                if okpairs and complete_rings:
                    forgen = ax
                else:
                    dohist = "axial_forgen:not_applicable"
            elif dohist == "shared_unitcell" and len(rings) >= 4:
                low = rings[:max(2, len(rings) // 3)]
                import io as _io, contextlib as _ctx
                with _ctx.redirect_stdout(_io.StringIO()):
                    ok, r = guard(indexing.do_index, cf, dstol=case["ds_tol"], hkl_tols=(tol,), fracs=(case["frac"],),
                                  cosine_tol=abs(case["cosine_tol"]), max_grains=100, forgen=low[:2], foridx=low,
                                  unitcell=uc, wavelength=0.3)
                if not ok:
                    return [exc_failure("indexing.do_index (low-angle rings first)", r)]
                forgen = rings[len(low):][:6]              # now search from the rings beyond those
            dohist_used = dohist
            # do_index computes minpks as frac * (sum of multiplicities * omega_range / 180)
            ok, r = guard(indexing.do_index, cf, dstol=case["ds_tol"], hkl_tols=(tol,), fracs=(case["frac"],),
                          cosine_tol=abs(case["cosine_tol"]), max_grains=100, forgen=forgen, foridx=rings,
                          unitcell=uc, wavelength=0.3)
            if not ok:
                return [exc_failure("indexing.do_index", r)]
            grains, ind = r
            minpks = minpks_low = ind.minpks
            gv = np.ascontiguousarray(ind.gv)          # do_index keeps only peaks on the rings in foridx
            owner = None
            if len(grains) != len(ind.ubis):
                fails.append(fail("grains", "do_index returned %d grains for %d UBIs" % (len(grains), len(ind.ubis)),
                                  driver="do_index"))
    ubis = [np.asarray(u, float) for u in ind.ubis]
    # ---- ring assignment by brute force
    if ind.ra is not None and len(ind.ra) == len(gv):
        ds = np.sqrt((gv * gv).sum(axis=1))
        rds = np.array(ind.unitcell.ringds)
        D = np.abs(ds[:, None] - rds[None, :])
        best = D.min(axis=1)
        exp_assigned = best < ind.ds_tol
        ra = np.asarray(ind.ra)
        edge = np.abs(best - ind.ds_tol) < 1e-12
        bad = ((ra >= 0) != exp_assigned) & ~edge
        if bad.any():
            fails.append(fail("rings", "assigntorings: %d peaks wrongly (un)assigned; %s" % (int(bad.sum()), where),
                              what="assigned"))
        else:
            m = (ra >= 0) & ~edge
            if m.any() and (D[m, ra[m]] > best[m] + 1e-12).any():
                fails.append(fail("rings", "assigntorings: a peak is not assigned to its nearest ring; %s" % where,
                                  what="nearest"))
    # ---- soundness of every reported UBI
    seen = np.zeros(len(gv), bool)
    for k, u in enumerate(ubis):
        lo, hi, hint = counts(u, gv, tol)
        if np.linalg.det(u) <= 0:
            fails.append(fail("handedness", "reported UBI %d is left handed; %s" % (k, where), inv="hand"))
        if not hi.sum() > minpks_low:
            fails.append(fail("minpks", "reported UBI %d indexes %d peaks (at most %d at the boundary), minimum "
                              "requested is > %s; stored score %s; %s" % (k, int(lo.sum()), int(hi.sum()), minpks_low,
                                                                           ind.scores[k] if k < len(ind.scores) else None,
                                                                           where), inv="minpks"))
        sel = lo
        if sel.sum() >= 12:
            H = hint[sel].T @ hint[sel]
            if np.linalg.cond(H) < 1e3:
                cp = oracles.cellpars_from_ubi(u)
                dl = np.abs(cp[:3] / np.array(cell[:3]) - 1).max()
                da = np.radians(np.abs(cp[3:] - np.array(cell[3:])).max())
                if dl > 3 * tol + 1e-6 or da > 3 * tol + 1e-6:
                    fails.append(fail("cell", "reported UBI %d has cell %s, supplied %s (beyond 3*hkl_tol); %s" %
                                      (k, np.round(cp, 4).tolist(), np.round(cell, 4).tolist(), where), inv="cell"))
            elif rec is not None:
                rec.exclude("cell comparison skipped: indexed reflections do not constrain the cell (cond >= 1e3)")
        if single_round and case["driver"] == "score_all_pairs":
            newfrac = (hi & ~seen).sum() / max(1, lo.sum())
            if not newfrac > case["uniqueness"] - 1e-9:
                fails.append(fail("uniqueness", "reported UBI %d: only %.3f of its indexed peaks were not already "
                                  "indexed by earlier reported UBIs (uniqueness %.2f); %s" %
                                  (k, newfrac, case["uniqueness"], where), inv="uniqueness"))
        seen |= lo
    for a in range(len(ubis)):
        for b in range(a + 1, len(ubis)):
            M = ubis[a] @ np.linalg.inv(ubis[b])
            if oracles.is_unimodular(M, 1e-6):
                fails.append(fail("duplicate", "reported UBIs %d and %d describe the same lattice; %s" % (a, b, where),
                                  inv="duplicate"))
    if len(ind.scores) != len(ubis):
        fails.append(fail("bookkeeping", "len(scores) %d != len(ubis) %d" % (len(ind.scores), len(ubis)),
                          inv="scores"))
    # ---- completeness on ideal data
    if not case["sound"] and ng == case["ng"]:
        found = {}
        for k, u in enumerate(ubis):
            for g, UB in enumerate(UBs):
                M = u @ UB
                R = np.rint(M)
                if abs(abs(np.linalg.det(R)) - 1) < 1e-9 and np.abs(M - R).max() < 0.02:
                    # indexes every reflection of grain g with the transformed indices
                    hh = (u @ (UB @ hk.T)).T
                    if np.abs(hh - (R @ hk.T).T).max() < tol:
                        found.setdefault(g, []).append(k)
        # a grain has to be reported when its own orientation indexes more than the minimum that was in force
        # (do_index derives that minimum from the multiplicities of the occupied rings: with merged rings at the edge
        # of the simulated range it can exceed the number of reflections a grain has)
        required = []
        for g, UB in enumerate(UBs):
            lo_g, _, _ = counts(np.linalg.inv(UB), gv, tol)
            if lo_g.sum() > minpks_low:
                required.append(g)
            elif rec is not None:
                rec.exclude("grain has no more than minpks reflections within hkl_tol: not required")
        missing = [g for g in required if g not in found]
        twice = [g for g, ks in found.items() if len(ks) > 1]
        if missing:
            fails.append(fail("missed", "%d of %d simulated grains were not reported (%d UBIs reported); %s" %
                              (len(missing), ng, len(ubis), where), inv="complete"))
        if twice:
            fails.append(fail("twice", "simulated grain(s) %s reported more than once; %s" % (twice, where),
                              inv="complete"))
        if not missing and not twice and len(ubis) != len(found):
            fails.append(fail("extra", "%d UBIs reported for %d simulated grains; %s" % (len(ubis), ng, where),
                              inv="complete"))
    if rec is not None:
        rec.note("slowest_case_s", time.time() - t_start, "max")
        if redraws:
            rec.exclude("orientation re-drawn: grains not well separated", redraws)
        spur = case.get("spurious", 0) if case["sound"] else 0
        nt = ng >= 2 or not case["lattice"].startswith("cubic") or spur > 0.2
        rec.case(case, nt, ["sound" if case["sound"] else "complete", "lat:" + case["lattice"],
                            "driver:" + case["driver"]] + (["cosine_all_mode"] if case["cosine_tol"] < 0 else []) +
                 (["second_pass"] if passes != 1 else []) +
                 (["do_index:" + dohist_used] if dohist_used != "none" else []) +
                 (["blind_cone:%d" % case["cone"]] if case.get("cone") else []))
        rec.note("reported_ubis", len(ubis))
    return fails


def run_shard(rec):
    quick = rec.tier == "quick"
    hyp_run(rec, "complete", cases(False, quick), lambda c: check(c, rec), max_examples=20 if quick else 250, shrink=not quick)
    hyp_run(rec, "axial", axialcases(quick), lambda c: check(c, rec), max_examples=3 if quick else 40, shrink=not quick)
    hyp_run(rec, "ringtable", ringtablecases(quick), lambda c: check(c, rec), max_examples=4 if quick else 40,
            shrink=not quick)
    hyp_run(rec, "onering", oneringcases(quick), lambda c: check(c, rec), max_examples=3 if quick else 40, shrink=not quick)
    hyp_run(rec, "sound", cases(True, quick), lambda c: check(c, rec), max_examples=25 if quick else 300, shrink=not quick)


def replay(sub, case, rec):
    return check(case, rec)
