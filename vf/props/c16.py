"""C16 - symmetry groups are proper point groups; orientation reduction is canonical."""
import itertools
import numpy as np
from hypothesis import strategies as st
from vf import gens
from vf.runner import hyp_run, run_cases, guard, fail, exc_failure

GROUPS = {  # name -> (order, cell family used for a conforming cell)
    "cubic": 24, "hexagonal": 12, "trigonal": 6, "rhombohedralP": 6, "tetragonal": 8,
    "orthorhombic": 4, "monoclinic_a": 2, "monoclinic_b": 2, "monoclinic_c": 2, "triclinic": 1}

THOROUGH_SCALE = 8      # multiplies every generated-case budget of the thorough tier
WARMUP = ["ImageD11.sinograms.point_by_point"]
RULE = ("exhaustive part: for each of the ten named groups all elements and all ordered products (closure, identity, "
        "inverses, det=+1, integer entries, order, metric preservation for conforming cells with generated free "
        "parameters) and all 720 orders of calling 6 group constructors + all pairs of the ten (cache purity); "
        "generated part: group x conforming cell x uniform rotation x EVERY group element applied beforehand -> "
        "find_uniq_u invariance, orbit membership, idempotence, maximal trace, unchanged score on exact lattice "
        "g-vectors; find_uniq_hkls on integer hkl |h|<400 likewise; refinegrains.makeuniq on objects in three states (orientations read; grains generated; grains moved per scan as a refinement leaves them): every stored orientation must become the canonical member of its own orbit; point_by_point.idxpoint on simulated peaks of one voxel (harness ray tracing): every orientation returned is the trace-maximal member of its orbit; grid_index_parallel.uniq_grain_list: each grain presented in every symmetry-equivalent setting (slightly perturbed) must be recognised as one grain; non-trivial = group order >= 2 and a generic "
        "(non-special) rotation; trace ties are counted and only required to return a maximiser")
ASSUMPTIONS = ["conforming cells are the standard settings used by refinegrains (hexagonal axes gamma=120 for "
               "hexagonal/trigonal, a=b=c alpha=beta=gamma for rhombohedralP, unique axis a/b/c for monoclinic_a/b/c)",
               "hklmax is injective for |h|,|k|,|l| < 400 (documented precondition |h| < hmax)"]
EXHAUSTIVE = "group axioms over all elements and ordered products of the ten groups; constructor call orders"


def shard_layout(tier):
    return [("opt", None)] * (4 if tier == "quick" else 16)


def conforming_cell(name, p):
    """p: dict of free parameters a,b,c,al,be,ga drawn by the generator."""
    a, b, c, al, be, ga = p["a"], p["b"], p["c"], p["al"], p["be"], p["ga"]
    return {
        "cubic": [a, a, a, 90, 90, 90],
        "hexagonal": [a, a, c, 90, 90, 120],
        "trigonal": [a, a, c, 90, 90, 120],
        "rhombohedralP": [a, a, a, min(al, 118.0), min(al, 118.0), min(al, 118.0)],
        "tetragonal": [a, a, c, 90, 90, 90],
        "orthorhombic": [a, b, c, 90, 90, 90],
        "monoclinic_a": [a, b, c, al, 90, 90],
        "monoclinic_b": [a, b, c, 90, be, 90],
        "monoclinic_c": [a, b, c, 90, 90, ga],
        "triclinic": p["tric"],
    }[name]


@st.composite
def cellpars(draw):
    L = st.floats(2.0, 30.0, allow_nan=False, width=64)
    A = st.floats(55.0, 125.0, allow_nan=False, width=64)
    _, tric = draw(gens.cells(families=("triclinic",)))
    return dict(a=draw(L), b=draw(L), c=draw(L), al=draw(A), be=draw(A), ga=draw(A), tric=tric)


# ----------------------------------------------------------------- exhaustive group axioms

def check_group(case, rec=None):
    from ImageD11 import sym_u
    name = case["group"]
    fails = []
    ok, g = guard(getattr(sym_u, name))
    if not ok:
        return [exc_failure(name + "()", g)]
    ops = [np.asarray(o, float) for o in g.group]
    n = len(ops)
    if n != GROUPS[name]:
        fails.append(fail("order", "%s has %d elements, proper point group order is %d" %
                          (name, n, GROUPS[name]), group=name))

    def member(m):
        return any(np.abs(m - o).max() < 1e-9 for o in ops)
    if not member(np.eye(3)):
        fails.append(fail("identity", "%s lacks the identity" % name, group=name))
    for i, o in enumerate(ops):
        if np.abs(o - np.rint(o)).max() > 1e-12:
            fails.append(fail("integer", "%s element %d is not integer" % (name, i), group=name))
        if abs(np.linalg.det(o) - 1) > 1e-9:
            fails.append(fail("det", "%s element %d has det %g" % (name, i, np.linalg.det(o)), group=name))
        if not member(np.linalg.inv(o)):
            fails.append(fail("inverse", "%s element %d has no inverse in the group" % (name, i), group=name))
    for i in range(n):
        for j in range(i + 1, n):
            if np.abs(ops[i] - ops[j]).max() < 1e-9:
                fails.append(fail("dupelement", "%s lists an element twice" % name, group=name))
    nprod = 0
    for a in ops:
        for b in ops:
            nprod += 1
            if not member(a @ b):
                fails.append(fail("closure", "%s is not closed under multiplication" % name, group=name))
                break
        else:
            continue
        break
    # metric preservation for conforming cells
    for p in case["cells"]:
        cell = conforming_cell(name, p)
        G = gens.gram(cell)
        for i, o in enumerate(ops):
            err = np.abs(o @ G @ o.T - G).max() / np.abs(G).max()
            if err > 1e-9:
                fails.append(fail("metric", "%s element %d (%s) does not preserve the metric of the "
                                  "conforming cell %s (rel err %g)" % (name, i, o.astype(int).tolist(),
                                                                       np.round(cell, 4).tolist(), err),
                                  group=name))
                break
    # getgroup resolves the same object
    ok, f = guard(sym_u.getgroup, name)
    if not ok:
        fails.append(exc_failure("getgroup(%s)" % name, f))
    else:
        g2 = f()
        if len(g2.group) != n or any(np.abs(np.asarray(a) - b).max() > 0 for a, b in zip(g2.group, ops)):
            fails.append(fail("purity", "getgroup(%s)() differs from %s()" % (name, name), group=name))
    if rec is not None:
        rec.case(dict(group=name, ncells=len(case["cells"])), n >= 2 and len(case["cells"]) > 0,
                 ["axioms:" + name], key=hash((name, repr(case["cells"]))) & (2 ** 60 - 1))
        rec.count(nprod - 1, ["products"])
    return fails


def check_purity(order, rec=None):
    """Calling the constructors in any order (fresh cache first) gives equal groups."""
    from ImageD11 import sym_u
    ref = getattr(check_purity, "_ref", None)
    if ref is None:
        sym_u.symcache.clear()
        ref = {nm: [np.array(o) for o in getattr(sym_u, nm)().group] for nm in GROUPS}
        check_purity._ref = ref
    sym_u.symcache.clear()
    fails = []
    for nm in order:
        g = getattr(sym_u, nm)()
        got = [np.asarray(o) for o in g.group]
        if len(got) != len(ref[nm]) or not all(np.array_equal(a, b) for a, b in zip(got, ref[nm])):
            fails.append(fail("purity", "%s() depends on the call history %s" % (nm, list(order)), group=nm))
    # second call returns an equal group
    for nm in order:
        g = getattr(sym_u, nm)()
        if len(g.group) != len(ref[nm]):
            fails.append(fail("purity", "second call of %s() changed the group" % nm, group=nm))
    if rec is not None:
        rec.count(1, ["constructor_orders"])
    return fails


# ----------------------------------------------------------------- canonical reduction

@st.composite
def ubicases(draw):
    name = draw(st.sampled_from(sorted(GROUPS)))
    p = draw(cellpars())
    U = draw(gens.rotations())
    gseed = draw(st.integers(0, 2 ** 31 - 1))
    return dict(group=name, p=p, U=U, gseed=gseed)


def check_ubi(case, rec=None):
    from ImageD11 import sym_u, cImageD11
    name = case["group"]
    grp = getattr(sym_u, name)()
    ops = [np.asarray(o, float) for o in grp.group]
    cell = conforming_cell(name, case["p"])
    B = gens.busing_levy_B(cell)
    U = np.asarray(case["U"], float)
    ubi = np.linalg.inv(U @ B)
    scale = np.abs(ubi).max()
    orbit = [o @ ubi for o in ops]
    traces = np.array([np.trace(m) for m in orbit])
    tmax = traces.max()
    tie = int((traces > tmax - 1e-9 * scale).sum()) > 1
    fails = []
    results = []
    for k, start in enumerate(orbit):
        ok, r = guard(sym_u.find_uniq_u, start.copy(), grp)
        if not ok:
            return [exc_failure("find_uniq_u", r)]
        r = np.asarray(r, float)
        results.append(r)
        if not any(np.abs(r - m).max() < 1e-10 * scale for m in orbit):
            fails.append(fail("orbit", "find_uniq_u(%s) returned a matrix outside the symmetry orbit "
                              "(pre-applied element %d)" % (name, k), group=name))
            break
        if np.trace(r) < tmax - 1e-9 * scale:
            fails.append(fail("maxtrace", "find_uniq_u(%s) result has trace %.12g, orbit maximum %.12g "
                              "(pre-applied element %d)" % (name, np.trace(r), tmax, k), group=name))
            break
        ok, r2 = guard(sym_u.find_uniq_u, r.copy(), grp)
        if ok and not tie and np.abs(np.asarray(r2) - r).max() > 1e-10 * scale:
            fails.append(fail("idempotent", "find_uniq_u(%s) is not idempotent" % name, group=name))
            break
    if not fails and not tie:
        for k, r in enumerate(results[1:], 1):
            if np.abs(r - results[0]).max() > 1e-10 * scale:
                fails.append(fail("invariance", "find_uniq_u(%s) differs between orbit members 0 and %d" %
                                  (name, k), group=name))
                break
    # indexing unchanged: exact lattice points + a few off-lattice vectors
    rng = np.random.RandomState(case["gseed"] % (2 ** 32))
    hkl = rng.randint(-6, 7, (40, 3)).astype(float)
    hkl[30:] += rng.uniform(0.2, 0.8, (10, 3))        # not indexed by any member
    gv = np.ascontiguousarray((U @ B @ hkl.T).T)
    if results:
        n0 = cImageD11.score(np.ascontiguousarray(ubi), gv, 0.05)
        n1 = cImageD11.score(np.ascontiguousarray(results[0]), gv, 0.05)
        if n0 != n1 or n0 != 30 - int((np.abs(hkl[:30]).sum(axis=1) < 0).sum()):
            fails.append(fail("indexing", "reduced orientation indexes %d peaks, original %d (expected 30)" %
                              (n1, n0), group=name))
    if rec is not None:
        special = np.allclose(U, np.eye(3)) or np.allclose(np.abs(U).max(axis=0), 1)
        rec.case(dict(case, U=U), len(ops) >= 2 and not special and not tie, ["reduce:" + name] +
                 (["trace_tie"] if tie else []))
        if tie:
            rec.exclude("trace tie between orbit members: only 'a maximiser in the orbit' asserted")
    return fails


@st.composite
def hklcases(draw):
    name = draw(st.sampled_from(sorted(GROUPS)))
    n = draw(st.integers(1, 40))
    hkl = draw(st.lists(st.lists(st.integers(-399, 399), min_size=3, max_size=3), min_size=n, max_size=n))
    return dict(group=name, hkl=hkl)


def check_hkl(case, rec=None):
    from ImageD11 import sym_u
    name = case["group"]
    grp = getattr(sym_u, name)()
    ops = [np.rint(np.asarray(o, float)).astype(int) for o in grp.group]
    H = np.array(case["hkl"], int).T.copy()          # 3 x n
    fails = []
    key = lambda h: (h[0] * 1000 + h[1]) * 1000 + h[2]
    # expected: per column the orbit member with the largest key
    exp = H.copy()
    for c in range(H.shape[1]):
        orb = [o @ H[:, c] for o in ops]
        exp[:, c] = max(orb, key=lambda h: key(h))
    outs = []
    for k, o in enumerate(ops):
        start = o @ H
        # integer indices as int64, int32 or as the float64 array that UBI.g gives after rounding
        arg = [start.copy(), start.astype(np.int32), start.astype(np.float64)][(k + len(case["hkl"])) % 3]
        keep = arg.copy()
        ok, r = guard(sym_u.find_uniq_hkls, arg, grp)
        if not ok:
            return [exc_failure("find_uniq_hkls", r)]
        if not np.array_equal(arg, keep):
            fails.append(fail("inputs", "find_uniq_hkls(%s) wrote into the %s array it was given" % (name, arg.dtype),
                              group=name))
            break
        r = np.asarray(r)
        outs.append(r)
        if r.shape != H.shape or not np.array_equal(r, exp):
            bad = int(np.argmax((r != exp).any(axis=0))) if r.shape == H.shape else -1
            fails.append(fail("hklreduce", "find_uniq_hkls(%s) column %d -> %s, expected orbit maximum %s "
                              "(pre-applied element %d)" % (name, bad, r[:, bad].tolist() if bad >= 0 else r.shape,
                                                            exp[:, bad].tolist(), k), group=name))
            break
        ok, r2 = guard(sym_u.find_uniq_hkls, r.copy(), grp)
        if ok and not np.array_equal(np.asarray(r2), r):
            fails.append(fail("hklidempotent", "find_uniq_hkls(%s) not idempotent" % name, group=name))
            break
    if rec is not None:
        rec.case(case, len(ops) >= 2 and H.shape[1] >= 2, ["hkl:" + name])
    return fails


# ----------------------------------------------------------------- duplicate detection by symmetry (grid indexing)

@st.composite
def uniqcases(draw):
    name = draw(st.sampled_from(sorted(GROUPS)))
    p = draw(cellpars())
    seed = draw(st.integers(0, 2 ** 31 - 1))
    nbase = draw(st.integers(1, 4))
    return dict(group=name, p=p, seed=seed, nbase=nbase)


def small_rotation(rng, max_deg):
    ax = rng.standard_normal(3)
    ax /= np.linalg.norm(ax)
    a = np.radians(rng.uniform(-max_deg, max_deg))
    K = np.array([[0, -ax[2], ax[1]], [ax[2], 0, -ax[0]], [-ax[1], ax[0], 0]])
    return np.eye(3) + np.sin(a) * K + (1 - np.cos(a)) * (K @ K)


def check_uniq(case, rec=None):
    import io, contextlib
    from ImageD11 import sym_u, grain, grid_index_parallel
    name = case["group"]
    ops = [np.asarray(o, float) for o in getattr(sym_u, name)().group]
    cell = conforming_cell(name, case["p"])
    B = gens.busing_levy_B(cell)
    rng = np.random.RandomState(case["seed"] % (2 ** 32))
    tolangle, toldist = 0.5, 50.0
    glist, truth = [], []
    for k in range(case["nbase"]):
        U = gens.rotation_from_seed(int(rng.randint(0, 2 ** 31 - 1)))
        t = rng.uniform(-300, 300, 3) + 1000.0 * k          # base grains far apart in space
        ubi = np.linalg.inv(U @ B)
        glist.append(grain.grain(ubi, t))
        truth.append(k)
        for o in ops:                                       # the same grain found again in another setting
            # slightly rotated, or (one in three) the exact symmetry equivalent as re-indexing the same peaks gives it
            exact = rng.randint(3) == 0
            dR = np.eye(3) if exact else small_rotation(rng, 0.2)
            u2 = o @ (ubi if exact else np.linalg.inv(dR @ U @ B))
            glist.append(grain.grain(u2, t.copy() if exact else t + rng.uniform(-10, 10, 3)))
            truth.append(k)
    nd = case["nbase"]
    for k in range(case["nbase"]):                          # a different grain at the same place, 2-5 degrees away
        ax = rng.standard_normal(3)
        ax /= np.linalg.norm(ax)
        a = np.radians(rng.uniform(2, 5))
        K = np.array([[0, -ax[2], ax[1]], [ax[2], 0, -ax[0]], [-ax[1], ax[0], 0]])
        R = np.eye(3) + np.sin(a) * K + (1 - np.cos(a)) * (K @ K)
        o = ops[rng.randint(len(ops))]
        glist.append(grain.grain(o @ glist[k * (len(ops) + 1)].ubi @ R.T, glist[k * (len(ops) + 1)].translation.copy()))
        nd += 1
    order = rng.permutation(len(glist))
    fails = []
    with contextlib.redirect_stdout(io.StringIO()):
        ok, ul = guard(grid_index_parallel.uniq_grain_list, name, toldist, tolangle,
                       [glist[i] for i in order])
    if not ok:
        return [exc_failure("uniq_grain_list", ul)]
    if len(ul.uniqgrains) < nd:
        fails.append(fail("uniq", "uniq_grain_list(%s) keeps %d grains for %d distinct ones: a grain 2-5 degrees away from "
                          "another one at the same position was merged into it (tolangle 0.5)" % (name, len(ul.uniqgrains), nd),
                          group=name))
    elif len(ul.uniqgrains) != nd:
        fails.append(fail("uniq", "uniq_grain_list(%s) keeps %d grains for %d distinct grains presented in all "
                          "their %d symmetry-equivalent settings" % (name, len(ul.uniqgrains), nd, len(ops)),
                          group=name))
    elif sum(g.nfound for g in ul.uniqgrains) != len(glist):
        fails.append(fail("uniq", "uniq_grain_list(%s) nfound counts %s do not add up to %d" %
                          (name, [g.nfound for g in ul.uniqgrains], len(glist)), group=name))
    if rec is not None:
        rec.case(case, len(ops) >= 2, ["uniq:" + name])
    return fails


# ----------------------------------------------------------------- refinegrains.makeuniq on object histories

@st.composite
def makeuniqcases(draw):
    name = draw(st.sampled_from(sorted(GROUPS)))
    p = draw(cellpars())
    seed = draw(st.integers(0, 2 ** 31 - 1))
    ng = draw(st.integers(1, 3))
    nscan = draw(st.integers(1, 2))
    hist = draw(st.sampled_from(["read", "generated", "refined", "refined"]))
    return dict(group=name, p=p, seed=seed, ng=ng, nscan=nscan, hist=hist)


def check_makeuniq(case, rec=None):
    """makeuniq must replace every stored orientation (those read from file and the per-scan grain objects,
    whatever has happened to them since) by the canonical member of *its own* symmetry orbit."""
    import io, contextlib
    from ImageD11 import sym_u, refinegrains, columnfile
    name = case["group"]
    ops = [np.asarray(o, float) for o in getattr(sym_u, name)().group]
    cell = conforming_cell(name, case["p"])
    B = gens.busing_levy_B(cell)
    rng = np.random.RandomState(case["seed"] % (2 ** 32))
    fails = []
    with contextlib.redirect_stdout(io.StringIO()):
        o = refinegrains.refinegrains()
        scans = ["scan%d.flt" % i for i in range(case["nscan"])]
        for sc in scans:
            o.scannames.append(sc)
            o.scandata[sc] = columnfile.colfile_from_dict({"xc": np.arange(4.0), "yc": np.arange(4.0),
                                                           "omega": np.arange(4.0), "labels": np.zeros(4),
                                                           "drlv2": np.ones(4)})
        before = {}
        for g in range(case["ng"]):
            U = gens.rotation_from_seed(int(rng.randint(0, 2 ** 31 - 1)))
            ubi = ops[rng.randint(len(ops))] @ np.linalg.inv(U @ B)      # any setting, as an indexer would give
            o.grainnames.append(g)
            o.ubisread[g] = ubi.copy()
            o.translationsread[g] = rng.uniform(-100, 100, 3) if rng.rand() < 0.7 else None
            before[("read", g)] = ubi.copy()
        if case["hist"] != "read":
            ok, e = guard(o.generate_grains)
            if not ok:
                return [exc_failure("generate_grains", e)]
            for key, gr in o.grains.items():
                if case["hist"] == "refined":
                    # what refineubis / refinepositions leave behind: a slightly different matrix per scan
                    dR = small_rotation(rng, 0.5)
                    new = (np.eye(3) + rng.uniform(-2e-3, 2e-3, (3, 3))) @ gr.ubi @ dR.T
                    gr.set_ubi(new)
                before[key] = np.array(gr.ubi, float).copy()
        ok, e = guard(o.makeuniq, name)
    if not ok:
        return [exc_failure("makeuniq", e)]
    after = {("read", g): np.asarray(o.ubisread[g], float) for g in o.ubisread}
    after.update({key: np.asarray(gr.ubi, float) for key, gr in o.grains.items()})
    if set(after) != set(before):
        fails.append(fail("makeuniq", "makeuniq changed the set of stored orientations: %s -> %s" %
                          (sorted(map(str, before)), sorted(map(str, after))), group=name))
    for key in before:
        if key not in after:
            continue
        b, a = before[key], after[key]
        scale = np.abs(b).max()
        orbit = [m @ b for m in ops]
        if not any(np.abs(a - m).max() < 1e-9 * scale for m in orbit):
            fails.append(fail("makeuniq", "makeuniq(%s), history '%s': orientation %s is no longer a symmetry "
                              "equivalent of what was stored before the call" % (name, case["hist"], str(key)),
                              group=name, hist=case["hist"]))
            break
        traces = np.array([np.trace(m) for m in orbit])
        # sym_u.find_uniq_u maximises the trace of the ubi itself over the orbit (checked in reduce_ubi)
        if np.trace(a) < traces.max() - 1e-9 * scale:
            fails.append(fail("makeuniq", "makeuniq(%s), history '%s': orientation %s is not the canonical member "
                              "of its orbit" % (name, case["hist"], str(key)), group=name, hist=case["hist"]))
            break
    if rec is not None:
        rec.case(case, len(ops) >= 2, ["makeuniq:" + case["hist"]])
    return fails


# ----------------------------------------------------------------- point_by_point.idxpoint returns reduced orientations

IDX_GROUPS = ["cubic", "hexagonal", "tetragonal", "orthorhombic", "trigonal"]


@st.composite
def idxcases(draw):
    name = draw(st.sampled_from(IDX_GROUPS))
    p = draw(cellpars())
    seed = draw(st.integers(0, 2 ** 31 - 1))
    si = draw(st.integers(-8, 8))
    sj = draw(st.integers(-8, 8))
    return dict(group=name, p=p, seed=seed, si=si, sj=sj)


def check_idxpoint(case, rec=None):
    """Simulated scanning-3DXRD peaks of one voxel (the harness's own ray tracing); every orientation returned by
    the point-by-point indexing worker must be the canonical member of its orbit under the group it was given."""
    import io, contextlib
    from vf import oracles as O
    from ImageD11 import parameters, unitcell, sym_u, indexing
    from ImageD11.sinograms import point_by_point as pbp, geometry as G
    name = case["group"]
    cell = [float(x) for x in conforming_cell(name, case["p"])]
    k = 3.5 / min(cell[:3])                                   # keep the number of rings moderate
    cell = [cell[0] * k, cell[1] * k, cell[2] * k] + cell[3:]
    ops = [np.asarray(o, float) for o in getattr(sym_u, name)().group]
    rng = np.random.RandomState(case["seed"] % (2 ** 32))
    par = dict(distance=150000.0, y_center=1024., z_center=1024., y_size=75., z_size=75., tilt_x=0., tilt_y=0.,
               tilt_z=0., o11=1., o12=0., o21=0., o22=-1., wedge=0., chi=0., t_x=0., t_y=0., t_z=0., omegasign=1.0,
               wavelength=0.3)
    ystep = 2.0
    y0 = rng.uniform(-3, 3)
    ymin = y0 - 20 * ystep + rng.randint(-3, 4) * ystep
    si, sj = case["si"], case["sj"]
    sx, sy = G.step_to_sample(si, sj, ystep)
    UB = gens.rotation_from_seed(case["seed"]) @ gens.busing_levy_B(cell)
    uc = unitcell.unitcell(cell, "P")
    uc.makerings(0.95)
    hkls = np.array([h for ds in uc.ringds for h in uc.ringhkls[ds]]).T

    def origin(omdeg):
        om = np.radians(omdeg)
        return np.array([sx * np.cos(om) - sy * np.sin(om), 0 * om, 0 * om])
    sim = O.geo_simulate(UB @ hkls, par, origin=origin)
    ok = sim["ok"]
    sc, fc, om = sim["sc"][ok], sim["fc"][ok], sim["omega"][ok]
    m = (sc > 0) & (sc < 2048) & (fc > 0) & (fc < 2048)
    sc, fc, om = sc[m], fc[m], om[m]
    n = len(om)
    if n < 40:
        if rec is not None:
            rec.exclude("fewer than 40 simulated peaks on the detector")
        return []
    xyz = O.geo_xyz_lab(sc, fc, par)
    omr = np.radians(om)
    dtyi = G.dty_to_dtyi(y0 - sx * np.sin(omr) - sy * np.cos(omr), ystep, ymin)
    _, eta = O.geo_tth_eta(xyz - origin(om))
    idxopts = dict(ystep=ystep, y0=y0, ymin=ymin, minpks=int(0.6 * n), hkl_tol=0.05, ds_tol=0.01, forgen=[0, 1, 2],
                   hmax=12, uniqcut=0.75)
    if case["seed"] % 2:
        # the worker as the pool runs it: initializer(parameter file, symmetry, peaks file) then proxy((i, j, opts)).
        # A pool process is initialised again when a second map (other phase / symmetry) is indexed: do that here
        import os, h5py
        tmp = os.environ.get("VERIF_TMP", ".")
        parfile = os.path.join(tmp, "c16_%d.par" % os.getpid())
        colfile = os.path.join(tmp, "c16_%d.h5" % os.getpid())
        pp = dict(par)
        pp.update({"cell__a": cell[0], "cell__b": cell[1], "cell__c": cell[2], "cell_alpha": cell[3],
                   "cell_beta": cell[4], "cell_gamma": cell[5], "cell_lattice_[P,A,B,C,I,F,R]": "P"})
        parameters.parameters(**pp).saveparameters(parfile)
        with h5py.File(colfile, "w") as h:
            g = h.create_group("peaks")
            g.attrs["ImageD11_type"] = "peaks"
            for nm, v in (("isel", np.ones(n, np.int8)), ("omega", om), ("sinomega", np.sin(omr)),
                          ("cosomega", np.cos(omr)), ("dtyi", np.asarray(dtyi)), ("xl", xyz[0]), ("yl", xyz[1]),
                          ("zl", xyz[2]), ("eta", eta)):
                g.create_dataset(nm, data=np.ascontiguousarray(v))
        other = IDX_GROUPS[(IDX_GROUPS.index(name) + 1 + case["seed"] // 2 % (len(IDX_GROUPS) - 1)) % len(IDX_GROUPS)]
        with contextlib.redirect_stdout(io.StringIO()):
            ok, res = guard(pbp.initializer, parfile, None, other, colfile, 10)
            if ok:
                ok, res = guard(pbp.initializer, parfile, None, name, colfile, 10)
            if ok:
                ok, res = guard(pbp.proxy, (si, sj, idxopts))
                if ok:
                    if tuple(res[:2]) != (si, sj):
                        return [fail("idxpoint", "proxy returned voxel %s for voxel %s" % (res[:2], (si, sj)),
                                     group=name)]
                    res = res[2]
        pbp.colglobal = None                      # release the memory maps before the file goes
        for f in (parfile, colfile):
            os.remove(f)
    else:
        pbp.parglobal = parameters.parameters(**par)
        pbp.ucglobal = unitcell.unitcell(cell, "P")
        pbp.symglobal = getattr(sym_u, name)()
        indexing.loglevel = 10
        with contextlib.redirect_stdout(io.StringIO()):
            ok, res = guard(pbp.idxpoint, si, sj, np.ones(n, bool), om, np.sin(omr), np.cos(omr), dtyi, xyz[0].copy(),
                            xyz[1].copy(), xyz[2].copy(), eta, **idxopts)
    if not ok:
        return [exc_failure("point_by_point.idxpoint", res)]
    fails = []
    truth = np.linalg.inv(UB)
    found = False
    for npk, nu, ubi in res:
        if npk == 0:
            continue
        ubi = np.asarray(ubi, float)
        scale = np.abs(ubi).max()
        tmax = max(np.trace(o @ ubi) for o in ops)
        if np.trace(ubi) < tmax - 1e-9 * scale:
            fails.append(fail("idxpoint", "idxpoint(%s): a returned orientation (%d peaks) is not the canonical member "
                              "of its symmetry orbit (trace %.9g, orbit maximum %.9g)" % (name, npk, np.trace(ubi), tmax),
                              group=name))
            break
        if min(np.abs(o @ truth - ubi).max() for o in ops) < 1e-6 * scale:
            found = True
    if rec is not None:
        rec.case(case, found and len(ops) >= 2, ["idxpoint:" + name] + ([] if found else ["idxpoint:grain_not_found"]))
    return fails


# ----------------------------------------------------------------- grid_index_parallel.domap hands back reduced orientations

def check_domap(case, rec=None):
    """The mapping step of the grid indexing ("does what makemap.py does, in a function") on the simulated peaks of
    one grain at the origin, started from any member of the grain's symmetry orbit, positions fitted or not: the
    grain handed back is the simulated one in the setting of largest trace."""
    import io, contextlib
    from vf import oracles as O
    from ImageD11 import parameters, unitcell, sym_u, grain as grainmod, columnfile, grid_index_parallel
    name = case["group"]
    cell = [float(x) for x in conforming_cell(name, case["p"])]
    k = 3.5 / min(cell[:3])
    cell = [cell[0] * k, cell[1] * k, cell[2] * k] + cell[3:]
    ops = [np.asarray(o, float) for o in getattr(sym_u, name)().group]
    par = dict(distance=150000.0, y_center=1024., z_center=1024., y_size=75., z_size=75., tilt_x=0., tilt_y=0.,
               tilt_z=0., o11=1., o12=0., o21=0., o22=-1., wedge=0., chi=0., t_x=0., t_y=0., t_z=0., omegasign=1.0,
               wavelength=0.3)
    UB = gens.rotation_from_seed(case["seed"]) @ gens.busing_levy_B(cell)
    uc = unitcell.unitcell(cell, "P")
    uc.makerings(0.9)
    hkls = np.array([h for ds in uc.ringds for h in uc.ringhkls[ds]]).T
    sim = O.geo_simulate(UB @ hkls, par)
    okm = sim["ok"]
    sc, fc, om = sim["sc"][okm], sim["fc"][okm], sim["omega"][okm]
    m = (sc > 0) & (sc < 2048) & (fc > 0) & (fc < 2048)
    sc, fc, om = sc[m], fc[m], om[m]
    n = len(om)
    if n < 40:
        if rec is not None:
            rec.exclude("fewer than 40 simulated peaks on the detector")
        return []
    colf = columnfile.colfile_from_dict({"sc": sc.copy(), "fc": fc.copy(), "omega": om.copy(), "xc": sc.copy(),
                                         "yc": fc.copy(), "sum_intensity": np.ones(n), "Number_of_pixels": np.ones(n),
                                         "labels": np.zeros(n) - 1, "drlv2": np.ones(n)})
    pp = dict(par)
    pp.update({"cell__a": cell[0], "cell__b": cell[1], "cell__c": cell[2], "cell_alpha": cell[3], "cell_beta": cell[4],
               "cell_gamma": cell[5], "cell_lattice_[P,A,B,C,I,F,R]": "P"})
    pars = parameters.parameters(**pp)
    for t in ("t_x", "t_y", "t_z"):
        pars.stepsizes[t] = 1.0
    truth = np.linalg.inv(UB)
    op = ops[case["seed"] % len(ops)]
    fitpos = bool((case["seed"] // 7) % 2)
    gridpars = {"OMEGAFLOAT": 0.0, "NUL": True, "TOLSEQ": [0.05, 0.02], "SYMMETRY": name, "NPKS": 10, "FITPOS": fitpos}
    start = grainmod.grain(op @ truth, [0., 0., 0.])
    with contextlib.redirect_stdout(io.StringIO()):
        ok, out = guard(grid_index_parallel.domap, pars, colf, [start], gridpars)
    if not ok:
        return [exc_failure("grid_index_parallel.domap", out)]
    fails = []
    if len(out) != 1:
        fails.append(fail("idxpoint", "domap(%s, FITPOS=%s): %d grains back for one simulated grain (%d peaks)" %
                          (name, fitpos, len(out), n), group=name))
    else:
        ubi = np.asarray(out[0].ubi, float)
        scale = np.abs(ubi).max()
        d = min(np.abs(o @ truth - ubi).max() for o in ops)
        tmax = max(np.trace(o @ ubi) for o in ops)
        if d > 1e-3 * scale:
            fails.append(fail("idxpoint", "domap(%s, FITPOS=%s): the grain handed back is not the simulated one (%.3g)" %
                              (name, fitpos, d / scale), group=name))
        elif np.trace(ubi) < tmax - 1e-6 * scale:
            fails.append(fail("idxpoint", "domap(%s, FITPOS=%s), started from orbit member %d: the grain handed back has "
                              "trace %.6g, an equivalent setting has %.6g" % (name, fitpos, case["seed"] % len(ops),
                                                                               np.trace(ubi), tmax), group=name))
    if rec is not None:
        rec.case(case, len(ops) >= 2, ["domap:" + name, "domap:fitpos" if fitpos else "domap:nofit"])
    return fails


REG_CELLS = [dict(a=3.0, b=4.0, c=5.0, al=80.0, be=100.0, ga=110.0, tric=[3., 4., 5., 80., 100., 110.])]


def run_shard(rec):
    quick = rec.tier == "quick"
    names = sorted(GROUPS)
    # exhaustive axioms: groups spread over the shards, cells from Hypothesis
    mine = [n for i, n in enumerate(names) if i % rec.nshards == rec.shard]
    run_cases(rec, "axioms", [dict(group=n, cells=REG_CELLS) for n in mine], lambda c: check_group(c, rec))
    if mine:
        strat = st.builds(lambda g, cs: dict(group=g, cells=cs), st.sampled_from(mine),
                          st.lists(cellpars(), min_size=1, max_size=3))
        hyp_run(rec, "axioms", strat, lambda c: check_group(c, rec), max_examples=40 if quick else 300)
    # constructor call histories: all ordered pairs, and all permutations of a 6-subset (sharded)
    orders = list(itertools.permutations(names, 2))
    if not quick:
        orders += list(itertools.permutations(["cubic", "hexagonal", "trigonal", "rhombohedralP",
                                               "tetragonal", "monoclinic_b"]))
    else:
        orders += list(itertools.permutations(["hexagonal", "trigonal", "rhombohedralP", "cubic"]))
    orders = [o for i, o in enumerate(orders) if i % rec.nshards == rec.shard]
    run_cases(rec, "purity", orders, lambda o: check_purity(o, rec))
    hyp_run(rec, "reduce_ubi", ubicases(), lambda c: check_ubi(c, rec), max_examples=300 if quick else 2500)
    hyp_run(rec, "reduce_hkl", hklcases(), lambda c: check_hkl(c, rec), max_examples=150 if quick else 1500)
    hyp_run(rec, "makeuniq", makeuniqcases(), lambda c: check_makeuniq(c, rec), max_examples=60 if quick else 500)
    hyp_run(rec, "domap", idxcases(), lambda c: check_domap(c, rec), max_examples=6 if quick else 60, shrink=False)
    hyp_run(rec, "idxpoint", idxcases(), lambda c: check_idxpoint(c, rec), max_examples=10 if quick else 60,
            shrink=not quick)
    hyp_run(rec, "uniq_grains", uniqcases(), lambda c: check_uniq(c, rec), max_examples=40 if quick else 400)


def replay(sub, case, rec):
    if sub == "axioms":
        return check_group(case, rec)
    if sub == "purity":
        return check_purity(case, rec)
    if sub == "reduce_hkl":
        return check_hkl(case, rec)
    if sub == "makeuniq":
        return check_makeuniq(case, rec)
    if sub == "idxpoint":
        return check_idxpoint(case, rec)
    if sub == "domap":
        return check_domap(case, rec)
    if sub == "uniq_grains":
        return check_uniq(case, rec)
    return check_ubi(case, rec)
