"""C06 - scoring and least-squares refinement kernels match their mathematical definition."""
import numpy as np
from hypothesis import strategies as st
from vf import gens, oracles
from vf.runner import hyp_run, run_cases, guard, fail, exc_failure, snapshot, written

THOROUGH_SCALE = 8      # multiplies every generated-case budget of the thorough tier
RULE = ("UBI = inv(U.B(cell)) for 7 cell families, right- and left-handed, optionally perturbed by 0.2% (poorly "
        "matching) x peak lists of n in {0,1,2,3,...,1e5} built as UB.(h+d) with integer |h| up to 20 / 500 / 1000 "
        "and |d_i| < 0.5 at noise levels 1e-6..0.45 x tol in (0,0.5] x label arrays x degenerate selections (empty, "
        "all l=0, collinear, <3 peaks); oracle = float64 numpy reference written from the statement with an "
        "interval rule at the tolerance boundary; non-trivial = peaks on both sides of the tolerance, or n>4096, or "
        "a singular selection; the library's Python routes (indexing.refine, calc_drlv2, indexer.score/refine on ring-assigned peaks, refinegrains.refine with and without a lattice constraint - cubic, tetragonal, orthorhombic, hexagonal, trigonalP, monoclinic_b - applied after each pass) are compared with the same reference; distinct = hash of the case")
ASSUMPTIONS = ["a peak whose squared error lies within its rounding uncertainty u=4e-13(1+|h|)(sqrt(e)+1e-13(1+|h|)) of "
               "tol^2 may be counted either way; least-squares results are compared only when no such peak exists",
               "fit tolerance |UBI_c.UB_ref - I| < 1e-9*cond(H) + 1e-11",
               "exactly singular normal equations are generated with |h|<=20, n<=100 so the determinant is exact in "
               "double precision"]


def shard_layout(tier):
    return [("opt", None)] * (8 if tier == "quick" else 16)


@st.composite
def cases(draw, big=False):
    fam, cell = draw(gens.cells())
    # from small molecules to protein-sized cells (volumes beyond 1e6 A^3: det(UB) below 1e-6)
    cscale = draw(st.sampled_from([1.0, 1.0, 1.0, 6.0, 40.0]))
    cell = [x * cscale for x in cell[:3]] + list(cell[3:])
    U = draw(gens.rotations())
    left = draw(st.sampled_from([False, False, False, True]))
    perturb = draw(st.sampled_from([0.0, 0.0, 2e-3, 1e-4]))
    if big:
        n = draw(st.sampled_from([4095, 4096, 4097, 8192, 20000, 100000]))
        hmax = draw(st.sampled_from([20, 500, 1000]))
    else:
        n = draw(st.one_of(st.integers(0, 12), st.integers(13, 400)))
        hmax = draw(st.sampled_from([3, 8, 20, 1000]))
    noise = draw(st.sampled_from([1e-6, 1e-3, 0.02, 0.1, 0.3, 0.45]))
    tol = draw(st.one_of(st.floats(0.001, 0.5, allow_nan=False), st.sampled_from([0.5, 0.05, 0.25])))
    degenerate = draw(st.sampled_from(["no", "no", "no", "coplanar", "collinear", "samepeak", "dyadic", "coplanar_g"]))
    seed = draw(st.integers(0, 2 ** 31 - 1))
    nlabel = draw(st.integers(1, 4))
    return dict(family=fam, cell=[float(x) for x in cell], U=U, left=left, perturb=perturb, n=n, hmax=hmax,
                noise=noise, tol=float(tol), degenerate=degenerate, seed=seed, nlabel=nlabel)


def build(case):
    rng = np.random.RandomState(case["seed"] % (2 ** 32))
    B = gens.busing_levy_B(case["cell"])
    UB = np.asarray(case["U"], float) @ B
    if case["left"]:
        UB = UB @ np.diag([1.0, 1.0, -1.0])
    n, hmax = case["n"], case["hmax"]
    if case["degenerate"] != "no":
        hmax = min(hmax, 20)
        n = min(n, 100)
    h = rng.randint(-hmax, hmax + 1, (n, 3)).astype(float)
    if case["degenerate"] == "coplanar":
        h[:, 2] = 0
    elif case["degenerate"] == "collinear" and n:
        h = np.outer(rng.randint(-hmax, hmax + 1, n), np.array([1.0, -2.0, 1.0]))
    elif case["degenerate"] == "samepeak" and n:
        h[:] = h[0]
    d = rng.uniform(-1, 1, (n, 3)) * case["noise"]
    if case["degenerate"] == "dyadic":
        # everything exactly representable: cell edges powers of two along the axes, fractional indices that are
        # multiples of 1/8 - UBI.g, its rounding and the squared error are computed without any rounding error, so a
        # peak can sit bit for bit on the tolerance (tol 0.5 / 0.25 / 0.125 with a half / quarter / eighth offset)
        edges = 2.0 ** rng.randint(0, 4, 3)
        P = np.eye(3)[rng.permutation(3)] * rng.choice([-1.0, 1.0], 3)[:, None]
        UB = P @ np.diag(1.0 / edges)
        h = rng.randint(-min(hmax, 8), min(hmax, 8) + 1, (n, 3)).astype(float)
        d = rng.choice([0.0, 0.0, 0.0, 0.5, -0.5, 0.25, -0.25, 0.125, 0.375], (n, 3)) * (rng.random_sample((n, 3)) < 0.4)
        gv = np.ascontiguousarray((UB @ (h + d).T).T)
        labels = rng.randint(0, case["nlabel"] + 1, n).astype(np.int32)
        return np.ascontiguousarray(np.linalg.inv(UB)), gv, labels
    if case["degenerate"] == "coplanar_g":
        # all g-vectors in one plane (g_z exactly 0) but a tilted trial matrix whose l = 0.3 h rounds to -1, 0, 1: the
        # integer indices are not coplanar, the normal matrix is regular, yet the fitted UB has a zero row and cannot
        # be inverted - the input must come back unchanged
        edges = 2.0 ** rng.randint(0, 4, 3)
        h = rng.randint(-3, 4, (n, 3)).astype(float)
        h[:, 2] = 0
        gv = np.ascontiguousarray(h / edges[None, :])
        ubi = np.diag(edges)
        ubi[2] += 0.3 * ubi[0]
        labels = rng.randint(0, case["nlabel"] + 1, n).astype(np.int32)
        return np.ascontiguousarray(ubi), gv, labels
    gv = np.ascontiguousarray((UB @ (h + d).T).T)
    ubi = np.linalg.inv(UB)
    if case["perturb"]:
        ubi = ubi * (1 + case["perturb"] * rng.uniform(-1, 1, (3, 3)))
    labels = rng.randint(0, case["nlabel"] + 1, n).astype(np.int32)
    return np.ascontiguousarray(ubi), gv, labels


def reference(ubi, gv, tol, exact=False):
    """errors, integer hkl, sure-in / ambiguous masks; exact: all arithmetic is exact (dyadic inputs), the boundary is
    decided by the strict comparison alone"""
    hh = gv @ ubi.T                       # (n,3)
    hi = np.rint(hh)
    e = ((hh - hi) ** 2).sum(axis=1)
    hm = np.abs(hh).max(axis=1) if len(hh) else np.zeros(0)
    u = 4e-13 * (1 + hm) * (np.sqrt(e) + 1e-13 * (1 + hm))
    if exact:
        u = u * 0.0
    t2 = tol * tol
    sure = e + u < t2
    amb = (~sure) & (e - u < t2)
    # exact half integers would make the rounding itself ambiguous
    half = (np.abs(np.abs(hh - np.floor(hh)) - 0.5) < 1e-9 * (1 + hm[:, None])).any(axis=1) if len(hh) else \
        np.zeros(0, bool)
    return e, hi, sure, amb | (half & ~sure), half


def lsq(gv, hi, sel):
    """returns (UBI_ref, UB_ref, cond, singular_exact)"""
    h = hi[sel]
    g = gv[sel]
    R = g.T @ h
    H = h.T @ h
    Hi = [[int(round(x)) for x in row] for row in H.tolist()]      # exact integer arithmetic
    det = (Hi[0][0] * (Hi[1][1] * Hi[2][2] - Hi[1][2] * Hi[2][1]) - Hi[0][1] * (Hi[1][0] * Hi[2][2] - Hi[1][2] * Hi[2][0])
           + Hi[0][2] * (Hi[1][0] * Hi[2][1] - Hi[1][1] * Hi[2][0]))
    if det == 0:
        return None, None, np.inf, True
    cond = np.linalg.cond(H)
    if not cond < 1e12:
        return None, None, cond, False
    UB = R @ np.linalg.inv(H)
    if abs(np.linalg.det(UB)) < 1e-300:
        return None, None, np.inf, True
    return np.linalg.inv(UB), UB, cond, False


def fit_close(ubi_c, UBref, cond):
    err = np.abs(ubi_c @ UBref - np.eye(3)).max()
    return err <= 1e-9 * cond + 1e-11, err


SYMFUN = {
    "cubic": lambda a, b, c, al, be, ga: [(a + b + c) / 3.0] * 3 + [90.0, 90.0, 90.0],
    "tetragonal": lambda a, b, c, al, be, ga: [(a + b) / 2.0, (a + b) / 2.0, c, 90.0, 90.0, 90.0],
    "orthorhombic": lambda a, b, c, al, be, ga: [a, b, c, 90.0, 90.0, 90.0],
    "hexagonal": lambda a, b, c, al, be, ga: [(a + b) / 2.0, (a + b) / 2.0, c, 90.0, 90.0, 120.0],
    "trigonalP": lambda a, b, c, al, be, ga: [(a + b + c) / 3.0] * 3 + [(al + be + ga) / 3.0] * 3,
    "monoclinic_b": lambda a, b, c, al, be, ga: [a, b, c, 90.0, be, 90.0],
}


def symmetrise(ubi, name):
    """The documented constraint step of refinegrains.refine, written independently: keep the orientation U of the
    fitted matrix (UB = U.B with B upper triangular, positive diagonal), replace the cell by its symmetrised version."""
    UB = np.linalg.inv(ubi)
    Q, R = np.linalg.qr(UB)
    sg = np.sign(np.diag(R))
    Q = Q * sg[None, :]
    cp = oracles.cellpars_from_ubi(ubi)
    return np.linalg.inv(Q @ gens.busing_levy_B(SYMFUN[name](*cp)))


def check(case, rec=None):
    from ImageD11 import cImageD11, indexing
    ubi, gv, labels = build(case)
    # label conventions in use: 0..n (grain numbers), -1 = unindexed (score_and_assign), -2 = never assigned
    # (refinegrains): the selection is by equality whatever the sign
    loff = [0, 0, -1, -2][case["seed"] % 4] if "seed" in case else 0
    labels = (labels + loff).astype(np.int32)
    n = len(gv)
    tol = case["tol"]
    snap = snapshot(gv=gv, labels=labels)
    dyadic = case["degenerate"] == "dyadic"
    if dyadic:
        tol = case["tol"] = [0.5, 0.25, 0.125, 0.5][case["seed"] % 4]
    if case["degenerate"] == "coplanar_g":
        tol = case["tol"] = 0.45
    e, hi, sure, amb, half = reference(ubi, gv, tol, exact=dyadic)
    if dyadic:
        amb = amb & False                 # half-integer indices round either way with the same error
    nin, namb = int(sure.sum()), int(amb.sum())
    fails = []
    where = "n=%d tol=%.6g hmax=%d noise=%g %s%s" % (n, tol, case["hmax"], case["noise"], case["degenerate"],
                                                    " left-handed" if case["left"] else "")

    def count_ok(c):
        return nin <= c <= nin + namb
    # ---- score
    ok, s = guard(cImageD11.score, ubi, gv, tol)
    if not ok:
        return [exc_failure("score", s)]
    if not count_ok(s):
        fails.append(fail("count", "score = %d, reference %d (+%d at the boundary); %s" % (s, nin, namb, where),
                          fn="score"))
    # python reference of the library
    ok, d2 = guard(indexing.calc_drlv2, ubi, gv)
    if ok:
        if n and np.abs(np.asarray(d2) - e)[~half].max(initial=0) > 1e-9:
            fails.append(fail("drlv2", "indexing.calc_drlv2 differs from |UBI.g - round|^2; %s" % where,
                              fn="calc_drlv2"))
    else:
        fails.append(exc_failure("calc_drlv2", d2))
    # ---- score_and_refine handed a matrix that is not C-contiguous float64 (a transposed view): the in/out argument
    #      is either refused or refined - never silently left as it was while count and error are returned
    uT = np.asfortranarray(ubi.copy())
    ok, rT = guard(cImageD11.score_and_refine, uT, gv, tol)
    if ok:
        u_c = ubi.copy()
        ok_c, r_c = guard(cImageD11.score_and_refine, u_c, gv, tol)
        if ok_c and not np.array_equal(u_c, ubi) and np.array_equal(uT, ubi):
            fails.append(fail("inout", "score_and_refine accepted a Fortran-ordered matrix, returned %r, and left it "
                              "unrefined (the C-ordered copy of the same matrix is refined); %s" % (rT, where),
                              fn="score_and_refine/layout"))
    elif not isinstance(rT, (ValueError, TypeError)):
        fails.append(exc_failure("score_and_refine(F-ordered ubi)", rT))
    # ---- score_and_refine
    u2 = ubi.copy()
    ok, r = guard(cImageD11.score_and_refine, u2, gv, tol)
    if not ok:
        return fails + [exc_failure("score_and_refine", r)]
    npk, msd = r
    if not count_ok(npk):
        fails.append(fail("count", "score_and_refine n = %d, reference %d (+%d); %s" % (npk, nin, namb, where),
                          fn="score_and_refine"))
    singular = None
    if namb == 0:
        if nin > 0 and abs(msd - e[sure].mean()) > 1e-9 * (1 + e[sure].mean()) + 1e-12:
            fails.append(fail("meanerr", "score_and_refine mean squared error %r, reference %r; %s" %
                              (msd, e[sure].mean(), where), fn="score_and_refine"))
        ref, UBref, cond, singular = lsq(gv, hi, sure)
        if singular:
            if not np.array_equal(u2, ubi):
                fails.append(fail("singular", "score_and_refine changed the matrix although the normal equations "
                                  "are singular; %s" % where, fn="score_and_refine"))
        elif cond < 1e6:
            good, err = fit_close(u2, UBref, cond)
            if not good:
                fails.append(fail("fit", "score_and_refine matrix differs from (sum g h^T)(sum h h^T)^-1: "
                                  "|UBI.UBref-I| = %.3g (cond %.3g); %s" % (err, cond, where), fn="score_and_refine"))
            # library python routes
            ok, ur = guard(indexing.refine, ubi.copy(), gv, tol)
            if ok:
                good, err = fit_close(np.asarray(ur, float), UBref, cond)
                # indexing.refine returns the input when nothing is indexed after the fit
                e2 = reference(np.ascontiguousarray(ref), gv, tol)
                if not good and int(e2[2].sum()) > 0:
                    fails.append(fail("fit", "indexing.refine differs from the least squares solution: %.3g "
                                      "(cond %.3g); %s" % (err, cond, where), fn="indexing.refine"))
            elif nin > 0:
                fails.append(exc_failure("indexing.refine", ur))
        # permutation metamorphic
        if n > 1 and not singular and cond < 1e6:
            perm = np.random.RandomState(case["seed"] % 1000).permutation(n)
            u3 = ubi.copy()
            ok, r3 = guard(cImageD11.score_and_refine, u3, np.ascontiguousarray(gv[perm]), tol)
            if ok:
                if r3[0] != npk or np.abs(u3 - u2).max() > 1e-9 * cond * np.abs(u2).max():
                    fails.append(fail("order", "score_and_refine depends on the order of the peaks; %s" % where,
                                      fn="score_and_refine"))
    # ---- library Python routes: indexer.score / indexer.refine (ring-assigned peaks only) and refinegrains.refine
    if n <= 400 and namb == 0:
        rngr = np.random.RandomState((case["seed"] + 11) % (2 ** 32))
        ra = np.where(rngr.random_sample(n) < 0.7, 0, -1).astype(np.int32)
        ok, ix = guard(indexing.indexer, gv=gv, hkl_tol=tol)
        if ok:
            ix.ra = ra
            ok, sc = guard(ix.score, ubi)
            if ok and sc != nin:
                fails.append(fail("count", "indexer.score = %s, reference %d; %s" % (sc, nin, where), fn="indexer.score"))
            # validation histogram of |h - round(h)| with the default bin edges: the counts below each edge are those
            # of the reference errors (score at that tolerance)
            if n >= 1:
                ok, e_ = guard(ix.histogram_drlv_fit, ubi)
                if not ok:
                    fails.append(exc_failure("indexer.histogram_drlv_fit", e_))
                else:
                    edges = np.asarray(ix.bins, float)
                    cum = np.concatenate([[0], np.cumsum(np.asarray(ix.histogram)[0])])
                    dr = np.sqrt(np.asarray(e, float))
                    below0 = int((dr < edges[0]).sum())
                    for k_, b_ in enumerate(edges):
                        if np.abs(dr - b_).min() < 1e-12 * (1 + b_):
                            continue
                        if below0 + cum[k_] != int((dr < b_).sum()):
                            fails.append(fail("count", "indexer.histogram_drlv_fit: %d peaks below the edge %.3g, "
                                              "reference %d; %s" % (below0 + cum[k_], b_, int((dr < b_).sum()), where),
                                              fn="histogram_drlv_fit"))
                            break
            sel = sure & (ra > -1)
            if sel.any():
                refm, UBr, condr, singr = lsq(gv, hi, sel)
                ok, ur = guard(ix.refine, ubi.copy())
                if ok and not singr and condr < 1e6:
                    good, err = fit_close(np.asarray(ur, float), UBr, condr)
                    if not good:
                        fails.append(fail("fit", "indexer.refine differs from the least squares solution over the "
                                          "ring-assigned indexed peaks: %.3g (cond %.3g); %s" % (err, condr, where),
                                          fn="indexer.refine"))
                    else:
                        e2, _, s2, a2, _ = reference(np.ascontiguousarray(refm), gv, tol)
                        lo2, hi2 = int((s2 & (ra > -1)).sum()), int(((s2 | a2) & (ra > -1)).sum())
                        if not lo2 <= ix.scorelastrefined <= hi2:
                            fails.append(fail("count", "indexer.refine scorelastrefined = %s, reference %d..%d; %s" %
                                              (ix.scorelastrefined, lo2, hi2, where), fn="indexer.refine"))
                elif not ok and not (isinstance(ur, ValueError) and "No contributing" in str(ur)):
                    fails.append(exc_failure("indexer.refine", ur))
        else:
            fails.append(exc_failure("indexer()", ix))
        # the same count on an indexer that has assigned its peaks to the rings of the cell with a narrow ds_tol (strained
        # / noisy peaks fall between rings): score counts every peak within hkl_tol, on a ring or not
        # (an indexer needs at least one ring below its longest g-vector: the axial reflections are, when the longest
        #  g-vector is beyond the longest reciprocal axis)
        astar_ = float(np.sqrt(np.diag(np.linalg.inv(gens.gram(case["cell"]))).max()))
        if case["degenerate"] == "no" and case["hmax"] <= 8 and n >= 1 and not case["left"] and case["noise"] <= 0.1 \
                and float(np.sqrt((gv * gv).sum(axis=1)).max()) > 1.01 * astar_:
            from ImageD11 import unitcell as ucm
            import io, contextlib

            def ringed():
                uc_ = ucm.unitcell(case["cell"], "P")
                ix2 = indexing.indexer(unitcell=uc_, gv=gv.copy(), hkl_tol=tol, wavelength=0.3,
                                       ds_tol=0.02 * case["noise"] / max(case["cell"][:3]) + 1e-9)
                with contextlib.redirect_stdout(io.StringIO()):
                    ix2.assigntorings()
                return ix2
            ok, ix2 = guard(ringed)
            if not ok:
                fails.append(exc_failure("indexer.assigntorings", ix2))
            else:
                ok, sc = guard(ix2.score, ubi)
                if not ok:
                    fails.append(exc_failure("indexer.score", sc))
                elif sc != nin:
                    fails.append(fail("count", "indexer.score after assigntorings (%d of %d peaks on a ring) = %s, "
                                      "reference %d; %s" % (int((np.asarray(ix2.ra) >= 0).sum()), n, sc, nin, where),
                                      fn="indexer.score"))
                elif rec is not None and 0 < int((np.asarray(ix2.ra) >= 0).sum()) < n:
                    rec.note("indexer_score_cases_with_peaks_off_the_rings", 1, "sum")
        if nin > 0 and singular is False:
            from ImageD11 import refinegrains
            import io, contextlib
            with contextlib.redirect_stdout(io.StringIO()):
                ok, rg = guard(refinegrains.refinegrains, tolerance=tol, OmFloat=False)
            if ok:
                rg.gv = gv
                ok, m2 = guard(rg.refine, ubi.copy())
                if ok:
                    # two passes: the second selects with the matrix fitted in the first
                    r1, UB1, c1, sg1 = lsq(gv, hi, sure)
                    if not sg1 and c1 < 1e6:
                        e1, h1, s1, a1, half1 = reference(np.ascontiguousarray(r1), gv, tol)
                        # the second pass works with a fitted matrix: a peak within 1e-9 (relative) of the tolerance can
                        # be counted either way (also when the first pass was exact arithmetic)
                        a1 = a1 | (np.abs(e1 - tol * tol) <= 1e-9 * tol * tol)
                        if a1.any() and rec is not None:
                            rec.exclude("two-pass refine: a peak within 1e-9 of the tolerance in the second pass")
                        if not a1.any() and s1.any():
                            r2, UB2, c2, sg2 = lsq(gv, h1, s1)
                            if not sg2 and c2 < 1e6:
                                good, err = fit_close(np.asarray(m2, float), UB2, c2)
                                if not good:
                                    fails.append(fail("fit", "refinegrains.refine differs from two least squares passes: "
                                                      "%.3g (cond %.3g); %s" % (err, c2, where), fn="refinegrains.refine"))
                                if rg.npks != int(s1.sum()):
                                    fails.append(fail("count", "refinegrains.refine npks = %s, reference %d; %s" %
                                                      (rg.npks, int(s1.sum()), where), fn="refinegrains.refine"))
                else:
                    fails.append(exc_failure("refinegrains.refine", m2))
            # the same with a lattice constraint applied after each of the two passes
            symname = sorted(SYMFUN)[case["seed"] % len(SYMFUN)]
            if not case["left"]:
                with contextlib.redirect_stdout(io.StringIO()):
                    ok, rg = guard(refinegrains.refinegrains, tolerance=tol, OmFloat=False,
                                   latticesymmetry=getattr(refinegrains, symname))
                r1, UB1, c1, sg1 = lsq(gv, hi, sure)
                if ok and not sg1 and c1 < 1e6 and np.linalg.det(r1) <= 0:
                    if rec is not None:
                        rec.exclude("lattice-constrained refine: the unconstrained fit is left handed (noise): xfab "
                                    "refuses it with a ValueError")
                elif ok and not sg1 and c1 < 1e6:
                    rg.gv = gv
                    r1s = symmetrise(r1, symname)
                    e1, h1, s1, a1, half1 = reference(np.ascontiguousarray(r1s), gv, tol)
                    # xfab's cell <-> matrix round trip is good to about 1e-8: peaks that close to the tolerance can be
                    # counted either way in the second pass
                    a1 = a1 | (np.abs(e1 - tol * tol) <= 1e-6 * tol * tol)
                    if not a1.any() and s1.any():
                        r2, UB2, c2, sg2 = lsq(gv, h1, s1)
                        if not sg2 and c2 < 1e6 and np.linalg.det(r2) > 0:
                            r2s = symmetrise(r2, symname)
                            ok, m3 = guard(rg.refine, ubi.copy())
                            if not ok and isinstance(m3, ValueError) and "orientation matrix U" in str(m3):
                                # xfab's own consistency test on U = (B.ubi)^T (fixed absolute tolerance) refuses some
                                # well-formed matrices of large cells: a clean rejection by the dependency, counted
                                if rec is not None:
                                    rec.exclude("lattice-constrained refine refused by xfab's rotation-matrix test "
                                                "(ValueError)")
                            elif not ok:
                                fails.append(exc_failure("refinegrains.refine(latticesymmetry=%s)" % symname, m3))
                            else:
                                good, err = fit_close(np.asarray(m3, float), np.linalg.inv(r2s), max(c1, c2))
                                if not good:
                                    fails.append(fail("fit", "refinegrains.refine(latticesymmetry=%s) differs from two "
                                                      "least squares passes each followed by the cell constraint: %.3g "
                                                      "(cond %.3g); %s" % (symname, err, max(c1, c2), where),
                                                      fn="refinegrains.refine/sym"))
                                # mean squared error: a matrix good to dM (relative; the limit of fit_close, and xfab's
                                # 1e-8 round trip) moves each hkl by 3 |h| dM and the mean of d^2 by 2 sqrt(mean) times that
                                dM = 1e-9 * max(c1, c2) + 1e-8
                                hm = float(np.abs(h1[s1]).max()) + 1.0
                                mtol = 2.0 * np.sqrt(e1[s1].mean()) * 3.0 * hm * dM + (3.0 * hm * dM) ** 2 + 1e-12
                                if rg.npks != int(s1.sum()) or abs(rg.avg_drlv2 - e1[s1].mean()) > mtol:
                                    fails.append(fail("count", "refinegrains.refine(latticesymmetry=%s): npks %s, mean "
                                                      "squared error %r; the matrix entering the second pass indexes %d "
                                                      "with %r; %s" % (symname, rg.npks, rg.avg_drlv2, int(s1.sum()),
                                                                       e1[s1].mean(), where), fn="refinegrains.refine/sym"))
                            if rec is not None:
                                rec.note("refine_with_lattice_constraint_cases", 1, "sum")
    # ---- the peak list and the labels are inputs: nothing may have written into them
    for nm in written(snap, gv=gv, labels=labels):
        fails.append(fail("inputs", "one of the scoring / refinement routes modified the %s array it was given; %s" %
                          (nm, where), what="inputs"))
    # ---- refine_assigned for every label (selection by label only)
    for lab in range(loff, case["nlabel"] + 2 + loff):
        sel = labels == lab
        u4 = ubi.copy()
        ok, r = guard(cImageD11.refine_assigned, u4, gv, labels, lab)
        if not ok and n == 0 and isinstance(r, ValueError) and "unexpected array size" in str(r):
            # the f2py wrapper refuses zero-length label arrays: a clean rejection, nothing is computed
            if rec is not None:
                rec.exclude("refine_assigned with zero peaks is rejected by the f2py wrapper (ValueError)")
            break
        if not ok:
            fails.append(exc_failure("refine_assigned", r))
            break
        k, msd = r
        if k != int(sel.sum()):
            fails.append(fail("count", "refine_assigned(label %d) npk = %d, reference %d; %s" %
                              (lab, k, int(sel.sum()), where), fn="refine_assigned"))
        if half[sel].any():
            continue
        em = e[sel].mean() if sel.any() else 0.0
        if abs(msd - em) > 1e-9 * (1 + em) + 1e-12:
            fails.append(fail("meanerr", "refine_assigned(label %d) mean error %r, reference %r; %s" %
                              (lab, msd, em, where), fn="refine_assigned"))
        ref, UBref, cond, sing = lsq(gv, hi, sel)
        if sing:
            if not np.array_equal(u4, ubi):
                fails.append(fail("singular", "refine_assigned(label %d) changed the matrix for a singular "
                                  "selection of %d peaks; %s" % (lab, int(sel.sum()), where), fn="refine_assigned"))
        elif cond < 1e6:
            good, err = fit_close(u4, UBref, cond)
            if not good:
                fails.append(fail("fit", "refine_assigned(label %d) differs from the least squares solution: %.3g "
                                  "(cond %.3g); %s" % (lab, err, cond, where), fn="refine_assigned"))
    if rec is not None:
        both = nin > 0 and (n - nin - namb) > 0
        nt = both or n > 4096 or bool(singular)
        cls = ["deg:" + case["degenerate"], "hmax:%d" % case["hmax"]]
        if n > 4096:
            cls.append("n>4096")
        if case["left"]:
            cls.append("left_handed")
        if singular:
            cls.append("singular")
        rec.case(dict(case, U=np.asarray(case["U"])), nt, cls)
        if namb:
            rec.exclude("least-squares comparison skipped: a peak lies within rounding error of tol^2")
        if half.any():
            rec.exclude("peak at an exact half-integer hkl (rounding direction unspecified)", int(half.sum()))
    return fails


def run_shard(rec):
    quick = rec.tier == "quick"
    hyp_run(rec, "small", cases(False), lambda c: check(c, rec), max_examples=400 if quick else 4000)
    hyp_run(rec, "big", cases(True), lambda c: check(c, rec), max_examples=6 if quick else 40, shrink=False)


def replay(sub, case, rec):
    return check(case, rec)
