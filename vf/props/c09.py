"""C09 - grain refinement recovers orientation, cell and position from simulated data."""
import os, io, shutil, contextlib, importlib.util, types
import numpy as np
from hypothesis import strategies as st
from vf import gens, oracles as O
from vf.props import c01
from vf.runner import hyp_run, run_cases, guard, fail, exc_failure

RULE = ("1-5 grains (uniform orientation, symmetric strain <= 5e-3, position within +-500 um) x geometry drawn from "
        "C01's switch lattice (tilts, 8 flips, wedge, chi, omegasign +-1, pixel-size signs) on a 2048^2 detector x cell "
        "in {cubic F, hexagonal, orthorhombic} x start grains perturbed by <= 0.2 deg / 1e-3 / +-100 um x omega used "
        "as observed or floated x lattice-symmetry constraint triclinic or matching x (makemap) orientation choice -s triclinic or matching, independent of -l; peaks forward-simulated by the "
        "harness's own ray tracing (validated on every case against the forward geometry reference to 1e-9), written "
        "to .flt/.par/.map files and pushed through loadparameters / loadfiltered / readubis / generate_grains / "
        "refinepositions (x2) / refineubis / savegrains and through scripts/makemap.py run twice (the second pass starting from the first's output); oracle = the generating grains; non-trivial = >= 2 of "
        "{tilt, off-diagonal flip, wedge, chi, omegasign=-1} active, or >= 2 grains; distinct = hash of the case")
ASSUMPTIONS = ["recovery tolerances: UBI 2e-5 relative, translation 5 um (about 10x the worst calibration result "
               "7e-7 / 0.36 um); the optimiser is a simplex with maxiters=100 per grain; when the single-pass route "
               "has lost contested peaks to a neighbouring grain at the perturbed start the bounds are 1e-3 / 50 um",
               "peaks indexed by two generating grains within twice the tolerance are contested: their label is not "
               "asserted (counted)",
               "a harness self-check (simulated peaks reproduce UB.hkl through the forward reference) failing is a "
               "harness error, not a violation"]

CELLS = {"cubicF": ([4.05, 4.05, 4.05, 90., 90., 90.], "F", "cubic"),
         "hexagonal": ([2.95, 2.95, 4.68, 90., 90., 120.], "P", "hexagonal"),
         "orthorhombic": ([4.1, 5.2, 6.3, 90., 90., 90.], "P", "orthorhombic"),
         "tetragonal": ([3.9, 3.9, 5.7, 90., 90., 90.], "P", "tetragonal"),
         "monoclinic_a": ([4.2, 5.1, 6.3, 103., 90., 90.], "P", "monoclinic_a"),
         "monoclinic_b": ([4.2, 5.1, 6.3, 90., 101., 90.], "P", "monoclinic_b"),
         "monoclinic_c": ([4.2, 5.1, 6.3, 90., 90., 97.], "P", "monoclinic_c")}


def shard_layout(tier):
    return [("opt", None)] * (8 if tier == "quick" else 16)


@st.composite
def cases(draw):
    index = draw(st.integers(0, 16383))
    mseed = draw(st.integers(0, 2 ** 20))
    ng = draw(st.integers(1, 5))
    lat = draw(st.sampled_from(sorted(CELLS)))
    strain = draw(st.sampled_from([0.0, 1e-3, 5e-3]))
    omfloat = draw(st.booleans())
    constraint = draw(st.sampled_from(["triclinic", "triclinic", "matching"]))
    # start files either carry the perturbed translation, or none at all (plain indexer output): then every grain
    # starts at the origin and the true positions are generated within the +-100 um perturbation range
    starts_with_t = draw(st.sampled_from([True, True, False, "mixed"]))     # mixed: every second grain has none
    route = draw(st.sampled_from(["api", "api", "makemap"]))
    uniq = draw(st.sampled_from(["triclinic", "triclinic", "matching"]))      # makemap -s : orientation choice only
    seed = draw(st.integers(0, 2 ** 31 - 1))
    return dict(index=index, mseed=mseed, ng=ng, lattice=lat, strain=strain, omfloat=omfloat, constraint=constraint,
                starts_with_t=starts_with_t, route=route, seed=seed, uniq=uniq)


def geometry(case):
    p, _, _, _ = c01.params_from(case["index"], case["mseed"])
    p = dict(p)
    p["wavelength"] = 0.25
    p["distance"] = 160000.0 * (1 + 0.1 * ((case["mseed"] % 7) - 3) / 3.0)
    p["y_size"] = float(np.sign(p["y_size"]) * 80.0)
    p["z_size"] = float(np.sign(p["z_size"]) * 80.0)
    p["y_center"] = 1000.0 + (case["mseed"] % 50)
    p["z_center"] = 1040.0 - (case["mseed"] % 37)
    # moderate tilts / wedge / chi as on a real instrument
    for k in ("tilt_x", "tilt_y", "tilt_z"):
        p[k] = p[k] * 0.1
    p["wedge"] = p["wedge"] / 6.0
    p["chi"] = p["chi"] / 6.0
    p["t_x"] = p["t_y"] = p["t_z"] = 0.0
    return p


def simulate(case):
    p = geometry(case)
    rng = np.random.RandomState(case["seed"] % (2 ** 32))
    cell, sym, symname = CELLS[case["lattice"]]
    B = gens.busing_levy_B(cell)
    from vf.props.c03 import brute
    S, _ = brute(cell, sym, 1.0 if case["lattice"] in ("cubicF", "hexagonal") else 0.75)
    hk = np.array(sorted(S), float).T                     # 3 x n
    grains = []
    rows = []
    for g in range(case["ng"]):
        U = gens.rotation_from_seed(int(rng.randint(0, 2 ** 31 - 1)))
        e = rng.uniform(-1, 1, (3, 3)) * case["strain"]
        e = 0.5 * (e + e.T)
        if case["constraint"] == "matching":
            e = np.eye(3) * e[0, 0] if case["lattice"] == "cubicF" else np.zeros((3, 3))
        UB = U @ (np.eye(3) + e) @ B
        has_t = (g % 2 == 0) if case["starts_with_t"] == "mixed" else bool(case["starts_with_t"])
        t_far, t_near = rng.uniform(-500, 500, 3), rng.uniform(-100, 100, 3)
        t = t_far if has_t else t_near
        gv = UB @ hk
        sim = O.geo_simulate(gv, p, t)
        for k in range(2):
            m = sim["ok"][k] & (sim["sc"][k] > 2) & (sim["sc"][k] < 2046) & (sim["fc"][k] > 2) & (sim["fc"][k] < 2046)
            for j in np.nonzero(m)[0]:
                rows.append((sim["sc"][k][j], sim["fc"][k][j], sim["omega"][k][j], g, hk[0, j], hk[1, j], hk[2, j]))
        grains.append((UB, t))
    rows = np.array(rows, float).reshape(-1, 7)
    # self check of the forward model against the forward geometry reference
    for g, (UB, t) in enumerate(grains):
        m = rows[:, 3] == g
        if m.any():
            f = O.geo_forward(rows[m, 0], rows[m, 1], rows[m, 2], p, t)
            err = np.abs(f["g"] - UB @ rows[m, 4:7].T).max()
            if err > 1e-9:
                raise RuntimeError("harness: forward simulation inconsistent with the geometry reference (%g)" % err)
    o = rng.permutation(len(rows))
    rows = rows[o]
    # perturbed starting grains
    starts = []
    for UB, t in grains:
        ax = rng.standard_normal(3)
        ax /= np.linalg.norm(ax)
        ang = np.radians(rng.uniform(-0.2, 0.2))
        if case["seed"] % 4 == 2 and case["route"] == "api":
            # a rougher start: the first assignment misses the highest orders, later passes have to pick them up
            ang = np.radians(rng.uniform(0.45, 0.6) * rng.choice([-1.0, 1.0]))
        K = np.array([[0, -ax[2], ax[1]], [ax[2], 0, -ax[0]], [-ax[1], ax[0], 0]])
        dR = np.eye(3) + np.sin(ang) * K + (1 - np.cos(ang)) * (K @ K)
        ubi0 = np.linalg.inv(dR @ UB) * (1 + rng.uniform(-1e-3, 1e-3))
        starts.append((ubi0, t + rng.uniform(-100, 100, 3)))
    return p, cell, sym, symname, grains, starts, rows


def write_inputs(d, p, cell, sym, starts, rows, with_t, oldnames=False, stale=False):
    from ImageD11 import columnfile, parameters, grain
    n = len(rows)
    # peak files name the detector coordinates sc/fc; files from the older merging program call them xc/yc
    a, b = ("xc", "yc") if oldnames else ("sc", "fc")
    cf = columnfile.colfile_from_dict({a: rows[:, 0].copy(), b: rows[:, 1].copy(), "omega": rows[:, 2].copy(),
                                       "Number_of_pixels": np.full(n, 10.0), "sum_intensity": np.full(n, 1000.0),
                                       "avg_intensity": np.full(n, 100.0)})
    if stale:
        # a peak file saved earlier with lab coordinates from another calibration: sc, fc and the current parameters
        # are what counts
        xyz = O.geo_xyz_lab(rows[:, 0], rows[:, 1], dict(p, distance=p["distance"] * 1.03, y_center=p["y_center"] + 4.0,
                                                         tilt_x=p["tilt_x"] + 0.01))
        for k_, nm_ in enumerate(("xl", "yl", "zl")):
            cf.addcolumn(np.asarray(xyz[k_], float).copy(), nm_)
    allp = dict(p)
    allp.update({"cell__a": cell[0], "cell__b": cell[1], "cell__c": cell[2], "cell_alpha": cell[3],
                 "cell_beta": cell[4], "cell_gamma": cell[5], "cell_lattice_[P,A,B,C,I,F,R]": sym})
    flt = os.path.join(d, "sim.flt")
    par = os.path.join(d, "sim.par")
    ubi = os.path.join(d, "start.map")
    cf.parameters = parameters.parameters(**allp)
    cf.writefile(flt)
    parameters.parameters(**allp).saveparameters(par)
    gl = [grain.grain(u, (t if ((k % 2 == 0) if with_t == "mixed" else with_t) else None))
          for k, (u, t) in enumerate(starts)]
    grain.write_grain_file(ubi, gl)
    return flt, par, ubi


def check(case, rec=None):
    from ImageD11 import refinegrains, grain, columnfile
    p, cell, sym, symname, grains, starts, rows = simulate(case)
    counts = np.bincount(rows[:, 3].astype(int), minlength=len(grains)) if len(rows) else np.zeros(len(grains), int)
    sort_npks = bool((case["seed"] // 5) % 2)              # makemap's default is to save the grains sorted by peaks
    if sort_npks and len(grains) >= 2 and case["seed"] % 3 == 2 and counts.min() >= 20:
        # two grains with exactly the same number of peaks (peaks of the richer one lost, as behind a beam stop)
        a_, b_ = (0, 1) if counts[0] >= counts[1] else (1, 0)
        idx = np.nonzero(rows[:, 3].astype(int) == a_)[0]
        drop = np.random.RandomState(case["seed"] % 7919).permutation(idx)[:counts[a_] - counts[b_]]
        rows = np.delete(rows, drop, axis=0)
        counts = np.bincount(rows[:, 3].astype(int), minlength=len(grains))
    if len(rows) == 0 or counts.min() < 20:
        if rec is not None:
            rec.exclude("fewer than 20 simulated peaks for a grain on the detector")
        return []
    d = os.path.join(os.environ.get("VERIF_TMP", "."), "c09_%d" % os.getpid())
    shutil.rmtree(d, ignore_errors=True)
    os.makedirs(d)
    fails = []
    where = "%s ng=%d strain=%g omfloat=%s constraint=%s route=%s start_t=%s wedge=%.3f chi=%.3f omegasign=%g" % (
        case["lattice"], case["ng"], case["strain"], case["omfloat"], case["constraint"], case["route"],
        case["starts_with_t"], p["wedge"], p["chi"], p["omegasign"]) + " uniq=%s" % case.get("uniq")
    try:
        flt, par, ubi = write_inputs(d, p, cell, sym, starts, rows, case["starts_with_t"],
                                     oldnames=(case["seed"] % 3 == 0), stale=(case["seed"] % 4 == 1))
        out = os.path.join(d, "out.map")
        latsym = symname if case["constraint"] == "matching" else "triclinic"
        buf = io.StringIO()
        with contextlib.redirect_stdout(buf):
            if case["route"] == "api":
                ok, o = guard(refinegrains.refinegrains, tolerance=0.05, OmFloat=case["omfloat"], OmSlop=0.25,
                              latticesymmetry=getattr(refinegrains, latsym))
                if ok:
                    def run():
                        o.loadparameters(par)
                        o.loadfiltered(flt)
                        o.readubis(ubi)
                        o.generate_grains()
                        o.refinepositions()
                        o.refinepositions()
                        o.refineubis()
                        o.savegrains(out, sort_npks=sort_npks)
                        o.scandata[flt].writefile(flt + ".new")
                    ok, e = guard(run)
                else:
                    e = o
            else:
                spec = importlib.util.spec_from_file_location(
                    "verif_makemap", os.path.join(os.environ.get("VERIF_REPO", "/repo"), "scripts", "makemap.py"))
                mm = importlib.util.module_from_spec(spec)
                ok, e = guard(spec.loader.exec_module, mm)
                if ok:
                    opts = types.SimpleNamespace(parfile=par, fltfile=flt, ubifile=ubi, newubifile=out,
                                                 symmetry=(symname if case.get("uniq") == "matching" else "triclinic"),
                                                 latticesymmetry=latsym, tol=0.05,
                                                 omega_float=case["omfloat"], omega_slop=0.25, sort_npks=sort_npks,
                                                 tthrange=None,
                                                 newfltfile=(os.path.join(d, "unindexed.flt")
                                                             if case["seed"] % 2 else None))
                    ok, e = guard(mm.makemap, opts)
                    if ok:
                        # makemap is run iteratively in practice: one simplex pass of 100 iterations per grain need
                        # not have converged from a +-100 um start; the second pass starts from the first's output
                        out2 = os.path.join(d, "out2.map")
                        opts2 = types.SimpleNamespace(**dict(vars(opts), ubifile=out, newubifile=out2))
                        ok, e = guard(mm.makemap, opts2)
                        out = out2
        if not ok:
            return [exc_failure("refinement (%s)" % case["route"], e)]
        ok, got = guard(grain.read_grain_file, out)
        if not ok:
            return [exc_failure("read_grain_file(out.map)", got)]
        if len(got) != len(grains):
            return [fail("count", "%d grains saved, %d simulated; %s" % (len(got), len(grains), where), what="count")]
        lmap = np.arange(len(grains))          # label in the peak file -> simulated grain
        if sort_npks:
            # saved in order of peak count: bring the list back to the order of the simulated grains.  The labels in
            # the peak file are the grain names = positions in the grain file the (last) pass started from: the
            # start file for one pass, the sorted output of the first pass for makemap run twice
            def match(gl_):
                back_ = [None] * len(grains)
                pos_ = []
                for g in gl_:
                    errs = []
                    for UB, t in grains:
                        M = g.ubi @ UB
                        errs.append(np.abs(M - np.rint(M)).max()
                                    if abs(abs(np.linalg.det(np.rint(M))) - 1) < 1e-9 else 9.0)
                    j = int(np.argmin(errs))
                    pos_.append(j)
                    if back_[j] is None:
                        back_[j] = g
                return back_, pos_
            back, _ = match(got)
            if any(b is None for b in back):
                return [fail("count", "the saved grains (sorted by number of peaks) do not correspond one to one to "
                             "the simulated grains; %s" % where, what="count")]
            got = back
            if case["route"] != "api":
                ok, first = guard(grain.read_grain_file, os.path.join(d, "out.map"))
                if not ok or len(first) != len(grains):
                    return [fail("count", "first makemap pass did not save one grain per simulated grain; %s" % where,
                                 what="count")]
                b1, pos1 = match(first)
                if any(b is None for b in b1):
                    return [fail("count", "grains saved by the first makemap pass do not correspond one to one to the "
                                 "simulated grains; %s" % where, what="count")]
                lmap = np.array(pos1)
        # peaks that more than one of the generating grains indexes (within twice the tolerance) are contested:
        # with perturbed starting grains either owner is a legitimate best fit
        E = np.array([O.lattice_errors(np.linalg.inv(UB), O.geo_forward(rows[:, 0], rows[:, 1], rows[:, 2], p, t)["g"].T)[0]
                      for UB, t in grains])
        contested = (E < (2 * 0.05) ** 2).sum(axis=0) >= 2
        ok_, cf0 = guard(columnfile.columnfile, flt + ".new")
        mislabelled = 0
        if ok_ and "labels" in cf0.titles and cf0.nrows == len(rows):
            l0 = np.asarray(cf0.labels).astype(int)
            l0 = np.where((l0 >= 0) & (l0 < len(lmap)), lmap[np.clip(l0, 0, len(lmap) - 1)], l0)
            mislabelled = int((l0 != rows[:, 3].astype(int)).sum())
        # single pass (makemap) with peaks taken by a neighbouring grain at the perturbed start: looser bounds
        lim_u, lim_t = (2e-5, 5.0) if mislabelled == 0 else (1e-3, 50.0)
        worst_u = worst_t = 0.0
        reoriented = case["route"] == "makemap" and case.get("uniq") == "matching"
        Ms = []
        for k, (g, (UB, t)) in enumerate(zip(got, grains)):
            ubi_true = np.linalg.inv(UB)
            M = g.ubi @ UB                      # identity, or a lattice symmetry operation chosen by makeuniq
            Mi = np.rint(M)
            Ms.append(Mi)
            if reoriented and abs(abs(np.linalg.det(Mi)) - 1) < 1e-9:
                eu = np.abs(np.linalg.inv(Mi) @ g.ubi - ubi_true).max() / np.abs(ubi_true).max()
            else:
                eu = np.abs(g.ubi - ubi_true).max() / np.abs(ubi_true).max()
            et = np.abs(np.asarray(g.translation) - t).max() if g.translation is not None else np.inf
            worst_u, worst_t = max(worst_u, eu), max(worst_t, et)
            if eu > lim_u:
                fails.append(fail("ubi", "grain %d: refined UBI differs from truth by %.3g relative (limit %g); %s" %
                                  (k, eu, lim_u, where), what="ubi"))
            if et > lim_t:
                fails.append(fail("translation", "grain %d: refined translation %s, truth %s (off by %.2f um, limit "
                                  "%g); %s" % (k, np.round(np.asarray(g.translation), 2).tolist(),
                                               np.round(t, 2).tolist(), et, lim_t, where), what="translation"))
        # makemap -F: the peaks no grain took, written apart; the main peak file is unaffected by the option
        unidx = os.path.join(d, "unindexed.flt")
        if case["route"] == "makemap" and os.path.exists(unidx):
            ok, cu = guard(columnfile.columnfile, unidx)
            ok2, cn = guard(columnfile.columnfile, flt + ".new")
            if ok2 and "labels" in cn.titles:
                nun = int((np.asarray(cn.labels) < -0.5).sum())
                nwr = cu.nrows if ok else 0            # a file without rows need not be readable
                if nwr != nun:
                    fails.append(fail("unindexed", "makemap -F wrote %d unindexed peaks, the peak file has %d peaks "
                                      "without a grain; %s" % (nwr, nun, where), what="unindexed"))
        # peak assignment and saved peak file
        ok, cf = guard(columnfile.columnfile, flt + ".new")
        if not ok:
            fails.append(exc_failure("columnfile(sim.flt.new)", cf))
        else:
            need = [c for c in ("labels", "h", "k", "l", "gx", "gy", "gz") if c not in cf.titles]
            if need:
                fails.append(fail("columns", "saved peak file lacks columns %s" % need, what="columns"))
            elif cf.nrows != len(rows):
                fails.append(fail("rows", "saved peak file has %d rows, %d written" % (cf.nrows, len(rows)), what="rows"))
            else:
                lab = np.asarray(cf.labels).astype(int)
                lab = np.where((lab >= 0) & (lab < len(lmap)), lmap[np.clip(lab, 0, len(lmap) - 1)], lab)
                wrong = (lab != rows[:, 3].astype(int)) & ~contested
                if rec is not None and contested.any():
                    rec.exclude("peak indexed by more than one generating grain (label may go to either)",
                                int(contested.sum()))
                if wrong.any():
                    fails.append(fail("labels", "%d of %d simulated peaks are not assigned to the grain that produced "
                                      "them (e.g. peak %d: label %d, grain %d); %s" %
                                      (int(wrong.sum()), len(rows), int(np.argmax(wrong)), lab[np.argmax(wrong)],
                                       int(rows[np.argmax(wrong), 3]), where), what="labels"))
                else:
                    own = lab == rows[:, 3].astype(int)
                    hkl = np.array([cf.h, cf.k, cf.l]).T
                    hexp = rows[:, 4:7].copy()
                    if reoriented:
                        for k, Mi in enumerate(Ms):       # saved indices are those of the reoriented grain
                            mk = rows[:, 3].astype(int) == k
                            hexp[mk] = (Mi @ rows[mk, 4:7].T).T
                    if np.abs(hkl - hexp)[own].max() > 0:
                        j = int(np.argmax(np.abs(hkl - hexp).max(axis=1) * own))
                        fails.append(fail("hkl", "saved h,k,l %s for a peak simulated from %s; %s" %
                                          (hkl[j].tolist(), hexp[j].tolist(), where), what="hkl"))
                    for k, g in enumerate(got):
                        m = (lab == k) & own
                        gcalc = np.linalg.inv(g.ubi) @ hexp[m].T
                        gobs = np.array([cf.gx[m], cf.gy[m], cf.gz[m]])
                        if m.any() and np.abs(gobs - gcalc).max() > (5e-4 if mislabelled == 0 else 5e-3):
                            fails.append(fail("gvec", "grain %d: saved g-vectors differ from UB_refined.hkl by %.3g; %s" %
                                              (k, np.abs(gobs - gcalc).max(), where), what="gvec"))
                    # text precision of the saved map against the in-memory grains is covered by C18
        if rec is not None:
            rec.note("worst_ubi_rel_err", worst_u, "max")
            rec.note("worst_translation_err_um", worst_t if np.isfinite(worst_t) else -1.0, "max")
    finally:
        shutil.rmtree(d, ignore_errors=True)
    if rec is not None:
        idx = case["index"]
        active = int(bool(idx & 7)) + int(((idx >> 11) & 7) >= 4) + int(bool((idx >> 3) & 1)) + \
            int(bool((idx >> 4) & 1)) + int(bool((idx >> 8) & 1))
        rec.case(case, active >= 2 or case["ng"] >= 2, ["lat:" + case["lattice"], "route:" + case["route"],
                                                        "omfloat:%s" % case["omfloat"], "constraint:" + case["constraint"]])
        rec.note("peaks_simulated", len(rows))
    return fails


def run_shard(rec):
    quick = rec.tier == "quick"
    hyp_run(rec, "refine", cases(), lambda c: check(c, rec), max_examples=40 if quick else 400, shrink=not quick)


def replay(sub, case, rec):
    return check(case, rec)
