"""C11 - threshold labelling yields exactly the connected components."""
import numpy as np
from hypothesis import strategies as st
from vf import gens, oracles
from vf.runner import hyp_run, run_cases, guard, fail, exc_failure

THOROUGH_SCALE = 3      # multiplies every generated-case budget of the thorough tier
RULE = ("images drawn from 11 structured kinds (random fills, checkerboards, combs, spirals, "
        "staircases, borders, blobs...) x shapes 2x2..64x64 (quick) / ..512x512 (thorough) incl. "
        "2xN and Nx2 x threshold position x connectivity 4/8 x garbage-prefilled label buffers; "
        "oracle = own union-find AND scipy.ndimage.label; a case is non-trivial when the reference "
        "finds >=2 components of which at least one is non-convex (bounding box not full), or "
        "when it needs more than 16384 provisional labels; distinct = distinct (image,threshold,"
        "connectivity) hash")
ASSUMPTIONS = ["scipy.ndimage.label and the harness union-find are correct (they are compared "
               "with each other on every case)",
               "images are float32 with finite values as every caller passes"]


def shard_layout(tier):
    return [("opt", None)] * (8 if tier == "quick" else 16)


def replay_flavour(sub):
    return ("opt", None)


def _imports():
    from ImageD11 import cImageD11, labelimage, sparseframe
    return cImageD11, labelimage, sparseframe


@st.composite
def cases(draw, maxdim):
    spec = draw(gens.image_specs(maxdim=maxdim))
    levels = draw(st.integers(1, 5))          # number of distinct grey levels above 0
    thpos = draw(st.sampled_from(["below", "between", "between", "at", "above", "zero", "zero", "zero"]))
    con8 = draw(st.sampled_from([1, 1, 0, 0, 2, 8, -1]))
    poison = draw(st.sampled_from([0, -7, 77, 123456]))
    extra = draw(st.sampled_from([0.0, 0.1, 0.5]))  # fraction of below-threshold sparse members
    return dict(spec=spec, levels=levels, thpos=thpos, con8=con8, poison=poison, extra=extra)


def build(case):
    spec = case["spec"]
    pat = gens.image_from_spec(spec)
    rng = np.random.RandomState((spec["seed"] * 7 + 13) % (2 ** 32))
    vals = rng.randint(1, case["levels"] + 1, pat.shape)
    im = (pat * vals).astype(np.float32) * 10.0       # levels 10,20,..
    L = case["levels"]
    th = {"below": -1.0, "zero": 0.0, "between": 10.0 * (1 + (spec["seed"] % L)) - 5.0,
          "at": 10.0 * (1 + (spec["seed"] % L)), "above": 10.0 * L + 1}[case["thpos"]]
    return im, float(th)


def nonconvex_count(ref, n):
    from scipy import ndimage
    if n == 0:
        return 0
    sl = ndimage.find_objects(ref)
    k = 0
    for lab, s in enumerate(sl, 1):
        if s is None:
            continue
        box = ref[s]
        if (box == lab).sum() != box.size:
            k += 1
    return k


def labels_ok(lab, npk, ref, nref, name, mask_above):
    out = []
    lab = np.asarray(lab)
    if npk != nref:
        out.append(fail("count", "%s returned %d components, reference %d" % (name, npk, nref),
                        target=name))
    if ((lab > 0) != mask_above).any() or (lab < 0).any():
        out.append(fail("background", "%s: label>0 does not coincide with pixel>threshold "
                        "(%d pixels differ)" % (name, int(((lab > 0) != mask_above).sum())),
                        target=name))
    elif not oracles.same_partition(lab, ref):
        out.append(fail("partition", "%s: partition differs from connected components" % name,
                        target=name))
    used = set(np.unique(lab).tolist()) - {0}
    if used != set(range(1, npk + 1)):
        out.append(fail("labelset", "%s: labels used are not exactly 1..%d" % (name, npk),
                        target=name))
    return out


def check(case, rec=None):
    cImageD11, labelimage, sparseframe = _imports()
    im, th = build(case)
    ns, nf = im.shape
    con8 = case["con8"]
    above = im > th
    ref, nref = oracles.components_scipy(above, con8)
    if im.size <= 4096:
        ref2, nref2 = oracles.components_2d(above, con8)
        if nref2 != nref or not oracles.same_partition(ref, ref2):
            raise RuntimeError("harness: scipy and union-find references disagree")
    fails = []
    # --- dense
    lab = np.full(im.shape, case["poison"], np.int32)
    ok, npk = guard(cImageD11.connectedpixels, im, lab, th, 0, con8)
    if not ok:
        return [exc_failure("connectedpixels", npk)]
    fails += labels_ok(lab, npk, ref, nref, "connectedpixels(con8=%d)" % con8, above)
    ref8, nref8 = (ref, nref) if con8 else oracles.components_scipy(above, 1)
    # --- labelimage.labelpeaks (8 connected)
    ok, li = guard(labelimage.labelimage, im.shape, fileout=_Null(), sptfile=_Null())
    if not ok:
        return fails + [exc_failure("labelimage()", li)]
    li.blim[:] = case["poison"]
    ok, e = guard(li.labelpeaks, im, th)
    if not ok:
        fails.append(exc_failure("labelimage.labelpeaks", e))
    else:
        fails += labels_ok(li.blim, li.npk, ref8, nref8, "labelimage.labelpeaks", above)
    # --- sparse variants: pixel list = all above threshold + some extra members
    rng = np.random.RandomState((case["spec"]["seed"] + 99) % (2 ** 32))
    member = above | (rng.random_sample(im.shape) < case["extra"])
    nnz = int(member.sum())
    if nnz > 0:
        i, j = np.nonzero(member)
        i = i.astype(np.uint16)
        j = j.astype(np.uint16)
        v = im[member].astype(np.float32)
        for name in ("sparse_connectedpixels", "splat", "sparseframe", "cplabel"):
            sl = np.full(nnz, case["poison"], np.int32)
            if name == "sparse_connectedpixels":
                ok, n2 = guard(cImageD11.sparse_connectedpixels, v, i, j, th, sl)
            elif name == "splat":
                Z = np.full((ns + 2) * (nf + 2), case["poison"], np.int32)
                ok, n2 = guard(cImageD11.sparse_connectedpixels_splat, v, i, j, th, sl, Z, ns, nf)
            elif name == "sparseframe":
                if case["spec"]["seed"] % 2:
                    # pixels collected in another order (e.g. per module of the detector), put in order with sort()
                    pm = np.random.RandomState((case["spec"]["seed"] + 7) % (2 ** 32)).permutation(nnz)
                    fr = sparseframe.sparse_frame(i[pm], j[pm], im.shape, pixels={"intensity": v[pm]})
                    ok, e_ = guard(fr.sort)
                    if not ok:
                        fails.append(exc_failure("sparse_frame.sort", e_))
                        continue
                    if not (np.array_equal(fr.row, i) and np.array_equal(fr.col, j) and
                            np.array_equal(fr.pixels["intensity"], v)):
                        fails.append(fail("order", "sparse_frame.sort() of a %d x %d frame does not give the pixels in "
                                          "slow / fast order with their own intensities" % im.shape, target=name))
                        continue
                else:
                    fr = sparseframe.sparse_frame(i, j, im.shape, pixels={"intensity": v})
                # the frame may carry the cut it was segmented with; an explicit threshold (0 included) overrides
                # it, threshold=None means "use the recorded one"
                mode = (case["spec"]["seed"] + case["levels"]) % 3
                if mode == 1:
                    fr.set_pixels("intensity", v, {"threshold": 10.0 * case["levels"] + 5.0 if th < 10 else 0.0})
                    ok, n2 = guard(sparseframe.sparse_connected_pixels, fr, threshold=th)
                elif mode == 2:
                    fr.set_pixels("intensity", v, {"threshold": th})
                    ok, n2 = guard(sparseframe.sparse_connected_pixels, fr)
                else:
                    ok, n2 = guard(sparseframe.sparse_connected_pixels, fr, threshold=th)
                if ok:
                    sl = fr.pixels["connectedpixels"]
                    if fr.meta["connectedpixels"].get("nlabel") != n2:
                        fails.append(fail("meta", "sparse_connected_pixels meta nlabel wrong",
                                          target=name))
                    # the same frame labelled again with another threshold (nothing above it), and back: the count kept
                    # with the labels is that of the labelling last done
                    ok3, n3 = guard(sparseframe.sparse_connected_pixels, fr, threshold=float(v.max()) + 1.0)
                    if ok3 and (n3 != 0 or fr.meta["connectedpixels"].get("nlabel") != 0):
                        fails.append(fail("meta", "frame labelled a second time above its largest value: %s objects "
                                          "returned, %s kept with the labels" %
                                          (n3, fr.meta["connectedpixels"].get("nlabel")), target=name))
                    ok, n2 = guard(sparseframe.sparse_connected_pixels, fr, threshold=th)
                    if ok:
                        sl = fr.pixels["connectedpixels"]
                        if fr.meta["connectedpixels"].get("nlabel") != n2:
                            fails.append(fail("meta", "frame labelled a third time: %s objects returned, %s kept with "
                                              "the labels" % (n2, fr.meta["connectedpixels"].get("nlabel")), target=name))
            else:
                # frames: this one, an empty one, one that stores only pixels not above the threshold (when the
                # list has any), this one again - read from a file as a window of a longer scan (frames 1..4 of 6)
                import os
                low = ~(v > th)
                nlow = int(low.sum())
                path = os.path.join(os.environ.get("VERIF_TMP", "."), "c11_scan_%d.h5" % os.getpid())
                junk = (i[::2], j[::2], (v[::2] + 1000).astype(np.float32))
                gens.write_sparse_scan(path, [junk, (i, j, v), (i[:0], j[:0], v[:0]), (i[low], j[low], v[low]), (i, j, v),
                                              junk], im.shape)
                if case["spec"]["seed"] % 2:
                    ok, sc = guard(sparseframe.SparseScan, path, "1.1", start=1, n=4)
                else:
                    ok, sc = guard(sparseframe.SparseScan, path, "1.1::[1:5]")
                os.remove(path)
                if not ok:
                    fails.append(exc_failure("SparseScan(window of a scan)", sc))
                    continue
                ok, n2 = guard(sc.cplabel, th, True)
                if ok:
                    l0 = sc.labels[:nnz]
                    l1 = sc.labels[nnz + nlow:]
                    n2 = int(sc.nlabels[0])
                    if (sc.labels[nnz:nnz + nlow] != 0).any():
                        fails.append(fail("cplabel_counts", "SparseScan.cplabel labels pixels of a frame that has "
                                          "nothing above the threshold", target=name))
                    if not (sc.nlabels[0] == sc.nlabels[3] and sc.nlabels[1] == 0 and sc.nlabels[2] == 0 and
                            sc.total_labels == 2 * n2):
                        fails.append(fail("cplabel_counts", "SparseScan.cplabel nlabels %s" %
                                          sc.nlabels.tolist(), target=name))
                    exp1 = np.where(l0 > 0, l0 + n2, 0)
                    if not (l1 == exp1).all():
                        fails.append(fail("cplabel_offset", "SparseScan.cplabel labels of the "
                                          "second frame are not offset by the first frame's count",
                                          target=name))
                    sl = l0
            if not ok:
                fails.append(exc_failure(name, n2))
                continue
            d = np.zeros(im.shape, np.int32)
            d[i, j] = sl
            if name == "splat":
                # splat leaves the labels of members that are not above the threshold as they were handed in (or
                # sets them to 0); anything else on such a pixel is a label on background
                notabove = ~(v > th)
                if notabove.any() and not np.isin(np.asarray(sl)[notabove], [0, case["poison"]]).all():
                    fails.append(fail("background", "splat: a stored pixel that is not above the threshold (value == "
                                      "threshold included) carries label %s" %
                                      np.asarray(sl)[notabove][~np.isin(np.asarray(sl)[notabove], [0, case["poison"]])][:3],
                                      target=name))
                d[i, j] = np.where(v > th, sl, 0)
            fails += labels_ok(d, n2, ref8, nref8, name, above)
    # --- a detector image (whole numbers) cut at a fractional level straight into a sparse frame, labelled at that level:
    #     the components of the pixels above the level
    if max(ns, nf) <= 64 and not fails:
        imu = np.clip(np.rint(im), 0, 65535).astype(np.uint16)
        pos_ = np.unique(imu[imu > 0])
        pv_ = float(pos_[len(pos_) // 2]) if len(pos_) else 1.0          # a grey level that occurs: the cut sits just below it
        for frac in (0.25, 0.5, 0.75):
            cutf = pv_ - 1.0 + frac
            ab2 = imu > cutf
            if not ab2.any():
                continue
            ok, fr2 = guard(sparseframe.from_data_cut, imu, cutf)
            if ok:
                ok, n4 = guard(sparseframe.sparse_connected_pixels, fr2, threshold=cutf)
            if not ok:
                fails.append(exc_failure("from_data_cut / sparse_connected_pixels", fr2 if not isinstance(fr2, sparseframe.sparse_frame) else n4))
                break
            d2 = np.zeros(im.shape, np.int32)
            d2[fr2.row, fr2.col] = fr2.pixels["connectedpixels"]
            r2_, n2_ = oracles.components_scipy(ab2, 1)
            f_ = labels_ok(d2, n4, r2_, n2_, "from_data_cut(uint16, cut %.2f) + sparse_connected_pixels" % cutf, ab2)
            fails += f_
            if f_:
                break
    if rec is not None:
        nonconv = nonconvex_count(ref, nref)
        # provisional labels: a new label is created for every pixel with no labelled
        # predecessor neighbour
        prov = _provisional(above, con8)
        nt = (nref >= 2 and nonconv >= 1) or prov > 16384
        cls = ["kind:" + case["spec"]["kind"], "con8:%d" % con8, "th:" + case["thpos"]]
        if prov > 16384:
            cls.append("realloc>16384")
        if min(ns, nf) <= 2:
            cls.append("thin")
        if nref == 0:
            cls.append("no_components")
        rec.case(case, nt, cls)
    return fails


def _provisional(above, con8):
    a = np.pad(above, 1)
    pred = a[1:-1, :-2] | a[:-2, 1:-1]
    if con8:
        pred = pred | a[:-2, :-2] | a[:-2, 2:]
    return int((above & ~pred).sum())


class _Null(object):
    def write(self, *a):
        pass

    def flush(self):
        pass


BIG = [  # deterministic large adversaries (label table reallocation, long chains)
    dict(spec=dict(kind="checker", ns=300, nf=300, seed=0, fill=.5), levels=1, thpos="zero",
         con8=0, poison=-7, extra=0.0),
    dict(spec=dict(kind="checker", ns=301, nf=299, seed=1, fill=.5), levels=2, thpos="zero",
         con8=0, poison=77, extra=0.1),
    dict(spec=dict(kind="comb", ns=200, nf=400, seed=1, fill=.5), levels=1, thpos="zero",
         con8=1, poison=-7, extra=0.0),
    dict(spec=dict(kind="comb", ns=257, nf=511, seed=2, fill=.5), levels=3, thpos="below",
         con8=1, poison=0, extra=0.0),
    dict(spec=dict(kind="comb", ns=257, nf=511, seed=4, fill=.5), levels=1, thpos="zero",
         con8=0, poison=0, extra=0.0),
    dict(spec=dict(kind="spiral", ns=512, nf=512, seed=0, fill=.5), levels=1, thpos="zero",
         con8=1, poison=-7, extra=0.0),
    dict(spec=dict(kind="spiral", ns=411, nf=512, seed=1, fill=.5), levels=1, thpos="zero",
         con8=0, poison=-7, extra=0.0),
    dict(spec=dict(kind="stairs", ns=512, nf=300, seed=1, fill=.5), levels=1, thpos="zero",
         con8=1, poison=5, extra=0.0),
    dict(spec=dict(kind="stairs", ns=300, nf=512, seed=0, fill=.5), levels=1, thpos="zero",
         con8=0, poison=5, extra=0.0),
    dict(spec=dict(kind="random", ns=512, nf=512, seed=5, fill=.5), levels=4, thpos="between",
         con8=1, poison=5, extra=0.1),
    dict(spec=dict(kind="random", ns=512, nf=512, seed=6, fill=.6), levels=1, thpos="zero",
         con8=0, poison=5, extra=0.0),
    dict(spec=dict(kind="sparse", ns=512, nf=512, seed=6, fill=.6), levels=1, thpos="zero",
         con8=1, poison=5, extra=0.0),
]


def run_shard(rec):
    quick = rec.tier == "quick"
    # deterministic big cases are spread over shards
    run_cases(rec, "big", [c for n, c in enumerate(BIG) if n % rec.nshards == rec.shard],
              lambda c: check(c, rec))
    maxdim = 48 if quick else 96
    hyp_run(rec, "small", cases(maxdim), lambda c: check(c, rec),
            max_examples=1200 if quick else 6000, shrink=True)
    if not quick:
        hyp_run(rec, "large", cases(512), lambda c: check(c, rec), max_examples=150,
                shrink=True)


def replay(sub, case, rec):
    return check(case, rec)
