"""C19 - scanning geometry is self-consistent; reconstructions land where it predicts."""
import numpy as np
from hypothesis import strategies as st
from vf.runner import hyp_run, run_cases, guard, fail, exc_failure

RULE = ("conversions: positions sx,sy (scalars and arrays) anywhere in a scanned disc, omega any real incl. multiples of "
        "90, dty, y0 within +-10 steps, ystep in {0.5..25}, recon shapes odd/even/non-square: every inverse pair "
        "(sample<->lab(+sincos), sample<->step, step<->recon, sample<->recon, lab<->step, lab<->recon), the in-beam "
        "dty (lab y = 0), dty<->dtyi, the dtyi masks in the three frames against a brute-force half-step rule, "
        "get_voxel_idx, the step grid, the sine fit; reconstructions: ny in [41,120] odd and even, 0-180 and 0-360 "
        "scans, point-like grain (Gaussian sigma 0.8 step along dty at dty_values_grain_in_beam) anywhere in the "
        "disc, y0 offset up to +-10 steps, module's own shift/pad: arg-max within 1.5 px of sample_to_recon and the module's LoG blob fit within 2 steps of the simulated position, "
        "linearity, workers in {1,2,5,16}, ROI masks; consumers: GrainSinogram (prepare_peaks_from_2d, build_sinogram, position from peaks, recon with the module's shift/pad, position from recon) on simulated peaks of a point-like grain with 40-200 projections plus foreign peaks, and PBPRefine.setmask on a uniform sample disc (mask centre within 1.5 steps in the map's own grid); non-trivial = |y0 offset| >= 2 steps, or even ny, or position "
        ">= 0.5 radius from the axis; distinct = hash of the case")
ASSUMPTIONS = ["positions exactly on a half-step boundary of the dtyi discretisation are excluded (counted)",
               "reconstruction tolerance 1.5 px as stated by the property (worst seen in calibration 1.12 px)",
               "linearity / worker-independence compared to 1e-9 of the reconstruction's maximum"]
WARMUP = ["ImageD11.sinograms.point_by_point"]


def shard_layout(tier):
    return [("opt", None)] * (8 if tier == "quick" else 16)


@st.composite
def convcases(draw):
    ystep = draw(st.sampled_from([0.5, 1.0, 2.5, 10.0, 25.0]))
    seed = draw(st.integers(0, 2 ** 31 - 1))
    y0off = draw(st.floats(-10, 10, allow_nan=False))
    shape = (draw(st.integers(3, 300)), draw(st.integers(3, 300)))
    special = draw(st.booleans())
    return dict(ystep=ystep, seed=seed, y0off=y0off, shape=shape, special=special)


class _NoWrite(object):
    """proxy of a module: every call is followed by a comparison of its array arguments with copies taken before -
    conversions return new values, they do not write into what they were given"""

    def __init__(self, mod, fails):
        self._mod, self._fails = mod, fails

    def __getattr__(self, name):
        fn = getattr(self._mod, name)
        if not callable(fn):
            return fn

        def call(*a, **k):
            before = [(i, x.copy()) for i, x in enumerate(a) if isinstance(x, np.ndarray)]
            out = fn(*a, **k)
            for i, c in before:
                if not np.array_equal(a[i], c, equal_nan=True):
                    self._fails.append(fail("inputs", "%s wrote into its argument %d" % (name, i), fn=name))
            return out
        return call


def check_conv(case, rec=None):
    from ImageD11.sinograms import geometry as G_
    from ImageD11.sinograms import point_by_point as pbp
    rng = np.random.RandomState(case["seed"] % (2 ** 32))
    ystep = case["ystep"]
    n = 64
    R = 200 * ystep
    sx = rng.uniform(-R, R, n)
    sy = rng.uniform(-R, R, n)
    om = rng.uniform(-720, 720, n)
    if case["special"]:
        om[:8] = [0, 90, 180, 270, -90, 360, 45, -180]
        sx[:2] = 0
        sy[1:3] = 0
    dty = rng.uniform(-R, R, n)
    y0 = case["y0off"] * ystep
    shape = tuple(case["shape"])
    tol = 1e-9 * (R + abs(y0) + 1)
    fails = []
    G = _NoWrite(G_, fails)

    def near(a, b, t=tol):
        return np.all(np.abs(np.asarray(a, float) - np.asarray(b, float)) <= t)

    def bad(kind, msg):
        fails.append(fail(kind, msg + " (ystep %g y0 %g shape %s)" % (ystep, y0, shape), fn=kind))
    # own formulas
    c, s = np.cos(np.radians(om)), np.sin(np.radians(om))
    lx_e = sx * c - sy * s
    ly_e = sx * s + sy * c + dty - y0
    ok, r = guard(G.sample_to_lab, sx, sy, y0, dty, om)
    if not ok:
        return [exc_failure("sample_to_lab", r)]
    if not (near(r[0], lx_e) and near(r[1], ly_e)):
        bad("sample_to_lab", "sample_to_lab differs from Rz(omega).s + (0, dty - y0)")
    ok, r2 = guard(G.sample_to_lab_sincos, sx, sy, y0, dty, s, c)
    if ok and not (near(r2[0], lx_e) and near(r2[1], ly_e)):
        bad("sample_to_lab_sincos", "sample_to_lab_sincos differs from the rotation formula")
    for name, fn, args in (("lab_to_sample", G.lab_to_sample, (lx_e, ly_e, y0, dty, om)),
                           ("lab_to_sample_sincos", G.lab_to_sample_sincos, (lx_e, ly_e, y0, dty, s, c))):
        ok, b = guard(fn, *args)
        if not ok:
            fails.append(exc_failure(name, b))
        elif not (near(b[0], sx) and near(b[1], sy)):
            bad(name, "%s is not the inverse of sample_to_lab" % name)
    # scalars behave like arrays
    ok, r = guard(G.sample_to_lab, float(sx[5]), float(sy[5]), y0, float(dty[5]), float(om[5]))
    if ok and not (near(r[0], lx_e[5]) and near(r[1], ly_e[5])):
        bad("sample_to_lab", "scalar call differs from the array call")
    # step / recon
    si_e, sj_e = sx / ystep, -sy / ystep
    ok, r = guard(G.sample_to_step, sx, sy, ystep)
    if ok and not (near(r[0], si_e) and near(r[1], sj_e)):
        bad("sample_to_step", "sample_to_step differs from (sx/ystep, -sy/ystep)")
    ok, r = guard(G.step_to_sample, si_e, sj_e, ystep)
    if ok and not (near(r[0], sx) and near(r[1], sy)):
        bad("step_to_sample", "step_to_sample is not the inverse of sample_to_step")
    ri_e, rj_e = si_e + shape[0] // 2, sj_e + shape[1] // 2
    ok, r = guard(G.step_to_recon, si_e, sj_e, shape)
    if ok and not (near(r[0], ri_e) and near(r[1], rj_e)):
        bad("step_to_recon", "step_to_recon differs from si + shape//2")
    ok, r = guard(G.recon_to_step, ri_e, rj_e, shape)
    if ok and not (near(r[0], si_e) and near(r[1], sj_e)):
        bad("recon_to_step", "recon_to_step is not the inverse of step_to_recon")
    comp = [("sample_to_recon", G.sample_to_recon, (sx, sy, shape, ystep), (ri_e, rj_e)),
            ("recon_to_sample", G.recon_to_sample, (ri_e, rj_e, shape, ystep), (sx, sy)),
            ("lab_to_step", G.lab_to_step, (lx_e, ly_e, y0, dty, om, ystep), (si_e, sj_e)),
            ("step_to_lab", G.step_to_lab, (si_e, sj_e, y0, dty, om, ystep), (lx_e, ly_e)),
            ("lab_to_recon", G.lab_to_recon, (lx_e, ly_e, y0, dty, om, shape, ystep), (ri_e, rj_e)),
            ("recon_to_lab", G.recon_to_lab, (ri_e, rj_e, y0, dty, om, shape, ystep), (lx_e, ly_e))]
    for name, fn, args, exp in comp:
        ok, r = guard(fn, *args)
        if not ok:
            fails.append(exc_failure(name, r))
        elif not (near(r[0], exp[0], tol * max(1, 1 / ystep)) and near(r[1], exp[1], tol * max(1, 1 / ystep))):
            bad(name, "%s is inconsistent with the other conversions" % name)
    # in-beam dty
    dib_e = y0 - sx * s - sy * c
    for name, fn, args in (("dty_values_grain_in_beam", G.dty_values_grain_in_beam, (sx, sy, y0, om)),
                           ("dty_values_grain_in_beam_sincos", G.dty_values_grain_in_beam_sincos, (sx, sy, y0, s, c)),
                           ("x_y_y0_omega_to_dty", G.x_y_y0_omega_to_dty, (om, sx, sy, y0)),
                           ("step_omega_to_dty", G.step_omega_to_dty, (si_e, sj_e, om, y0, ystep)),
                           ("recon_omega_to_dty", G.recon_omega_to_dty, (ri_e, rj_e, om, y0, shape, ystep))):
        ok, d = guard(fn, *args)
        if not ok:
            fails.append(exc_failure(name, d))
            continue
        ok2, l = guard(G.sample_to_lab, sx, sy, y0, d, om)
        if not near(d, dib_e) or (ok2 and not near(l[1], 0)):
            bad(name, "%s does not bring the point into the beam (lab y != 0)" % name)
    # dty <-> dtyi
    ymin = -R + rng.uniform(-1, 1) * ystep
    k = rng.randint(-500, 500, n)
    ok, d = guard(G.dtyi_to_dty, k, ystep, ymin)
    if ok:
        ok, k2 = guard(G.dty_to_dtyi, d, ystep, ymin)
        if ok and not np.array_equal(np.asarray(k2), k):
            bad("dty_to_dtyi", "dty_to_dtyi(dtyi_to_dty(k)) != k")
    frac = (dty - ymin) / ystep
    edge = np.abs(frac - np.floor(frac) - 0.5) < 1e-9
    ok, ki = guard(G.dty_to_dtyi, dty, ystep, ymin)
    if ok:
        back = np.asarray(G.dtyi_to_dty(ki, ystep, ymin))
        if (np.abs(back - dty)[~edge] > ystep / 2 * (1 + 1e-9)).any() or \
                np.asarray(ki).dtype.kind != "i":
            bad("dty_to_dtyi", "dty_to_dtyi is not the nearest bin")
    # masks: brute force "nearest bin of the in-beam dty equals dtyi"
    dtyi_obs = np.rint((dib_e - ymin) / ystep).astype(int) + rng.randint(-1, 2, n)
    fr2 = (dib_e - ymin) / ystep
    edge2 = np.abs(fr2 - np.floor(fr2) - 0.5) < 1e-9
    exp_mask = np.abs(dib_e - (dtyi_obs * ystep + ymin)) <= ystep / 2
    one = lambda v: np.full(n, v)
    masks = [("dtyimask_from_sample", lambda q: G.dtyimask_from_sample(sx[q], sy[q], om, dtyi_obs, y0, ystep, ymin)),
             ("dtyimask_from_sample_sincos", lambda q: G.dtyimask_from_sample_sincos(sx[q], sy[q], s, c, dtyi_obs, y0,
                                                                                     ystep, ymin)),
             ("dtyimask_from_step", lambda q: G.dtyimask_from_step(si_e[q], sj_e[q], om, dtyi_obs, y0, ystep, ymin)),
             ("dtyimask_from_step_sincos", lambda q: G.dtyimask_from_step_sincos(si_e[q], sj_e[q], s, c, dtyi_obs, y0,
                                                                                 ystep, ymin)),
             ("dtyimask_from_recon", lambda q: G.dtyimask_from_recon(ri_e[q], rj_e[q], om, dtyi_obs, y0, ystep, ymin,
                                                                     shape)),
             ("dtyimask_from_recon_sincos", lambda q: G.dtyimask_from_recon_sincos(ri_e[q], rj_e[q], s, c, dtyi_obs,
                                                                                   y0, ystep, ymin, shape))]
    q = 7
    dq = y0 - sx[q] * s - sy[q] * c
    fq = (dq - ymin) / ystep
    eq = np.abs(fq - np.floor(fq) - 0.5) < 1e-7
    expq = np.abs(dq - (dtyi_obs * ystep + ymin)) <= ystep / 2
    for name, fn in masks:
        ok, m = guard(fn, q)
        if not ok:
            fails.append(exc_failure(name, m))
        elif (np.asarray(m, bool) != expq)[~eq].any():
            bad(name, "%s differs from the half-step rule |dty_calc - dty(dtyi)| <= ystep/2" % name)
    # the row of the scan that holds the point at each angle, asked for directly (from step and from recon
    # coordinates): the nearest row to the in-beam dty - also when the axis (y0) lies between two rows
    for name, fn in (("step_omega_to_dtyi", lambda: G.step_omega_to_dtyi(si_e[q], sj_e[q], om, y0, ystep, ymin)),
                     ("recon_omega_to_dtyi", lambda: G.recon_omega_to_dtyi(ri_e[q], rj_e[q], om, y0, shape, ystep, ymin))):
        ok, ki_ = guard(fn)
        if not ok:
            fails.append(exc_failure(name, ki_))
        elif (np.abs(dq - (np.asarray(ki_) * ystep + ymin)) > ystep / 2 * (1 + 1e-9))[~eq].any():
            bad(name, "%s: the row returned is not the nearest one to the dty that brings the point into the beam "
                      "(worst %.3f steps away)" % (name, float(np.abs(dq - (np.asarray(ki_) * ystep + ymin)).max() / ystep)))
    if rec is not None and (eq.any() or edge.any()):
        rec.exclude("value exactly on a half-step boundary of the dtyi discretisation", int(eq.sum() + edge.sum()))
    # get_voxel_idx
    ok, r = guard(pbp.get_voxel_idx, y0, float(sx[q]), float(sy[q]), s, c, dty, ystep)
    if ok:
        yd = np.abs(dq - dty)
        if not near(r[1], yd) or not np.array_equal(np.asarray(r[0]), np.nonzero(yd <= ystep)[0]):
            bad("get_voxel_idx", "get_voxel_idx differs from |in-beam dty - dty| <= ystep")
    else:
        fails.append(exc_failure("get_voxel_idx", r))
    # step grid
    ny = 10 + case["seed"] % 50
    ybc = ymin + np.arange(ny) * ystep
    gs = 1 + case["seed"] % 3
    ok, pts = guard(G.step_grid_from_ybincens, ybc, ystep, gs, y0)
    if ok:
        ii = sorted(set(p[0] for p in pts))
        jj = sorted(set(p[1] for p in pts))
        need = np.abs(ybc - y0).max() / ystep
        if ii != jj or len(pts) != len(ii) ** 2 or ii[0] > -need + 1e-9 or \
                (ii[-1] + gs - 1) < need - 1e-9 or ii[0] != -int(np.ceil(need - 1e-12)) and ii[0] != -int(np.ceil(need)) \
                and ii[0] != int(np.floor(-need)):
            bad("step_grid", "step_grid_from_ybincens does not cover the scanned range symmetrically")
        if any((b - a) != gs for a, b in zip(ii[:-1], ii[1:])):
            bad("step_grid", "step grid spacing is not gridstep")
    else:
        fails.append(exc_failure("step_grid_from_ybincens", pts))
    # shift and pad
    ok, sp = guard(G.sino_shift_and_pad, y0, ny, ymin, ystep)
    if ok:
        sh_e = ny / 2 - (y0 - ymin) / ystep
        if abs(sp[0] - sh_e) > 1e-9 * (1 + abs(sh_e)) or sp[1] < 2 * abs(sh_e) or sp[1] > 2 * abs(sh_e) + 2:
            bad("sino_shift_and_pad", "shift/pad differ from ny/2 - (y0-ymin)/ystep and ceil(2|shift|)+1")
    else:
        fails.append(exc_failure("sino_shift_and_pad", sp))
    # sine fit on exact data
    omf = np.arange(0, 360, 7.0)
    ok, fit = guard(G.sx_sy_y0_from_dty_omega, G.dty_values_grain_in_beam(sx[9], sy[9], y0, omf), omf)
    if ok:
        if not near(fit, (sx[9], sy[9], y0), 1e-5 * (R + 1)):
            bad("sine_fit", "sx_sy_y0_from_dty_omega does not recover the point from exact data: %s vs %s" %
                (np.round(fit, 6), np.round((sx[9], sy[9], y0), 6)))
    else:
        fails.append(exc_failure("sx_sy_y0_from_dty_omega", fit))
    if rec is not None:
        rec.count(n - 1)
        rec.case(case, abs(case["y0off"]) >= 2 or shape[0] % 2 == 0, ["conversions"])
    return fails


# ------------------------------------------------------------------ reconstructions

@st.composite
def reconcases(draw):
    ystep = draw(st.sampled_from([0.5, 1.0, 2.5, 10.0]))
    ny = draw(st.integers(41, 120))
    full = draw(st.booleans())
    y0off = draw(st.floats(-10, 10, allow_nan=False))
    rfrac = draw(st.floats(0, 1, allow_nan=False))
    ang = draw(st.floats(0, 360, allow_nan=False))
    yminoff = draw(st.floats(-50, 50, allow_nan=False))
    workers = draw(st.sampled_from([2, 5, 16]))
    seed = draw(st.integers(0, 2 ** 31 - 1))
    return dict(ystep=ystep, ny=ny, full=full, y0off=y0off, rfrac=rfrac, ang=ang, yminoff=yminoff, workers=workers,
                seed=seed)


def check_recon(case, rec=None):
    from ImageD11.sinograms import geometry as G
    from ImageD11.sinograms.roi_iradon import run_iradon
    ystep, ny = case["ystep"], case["ny"]
    ymin = case["yminoff"] * ystep
    ybc = ymin + np.arange(ny) * ystep
    ycen = ybc[ny // 2] if ny % 2 else 0.5 * (ybc[ny // 2 - 1] + ybc[ny // 2])
    y0 = ycen + case["y0off"] * ystep
    omega = np.arange(0, 360 if case["full"] else 180, 1.0)
    rmax = min(y0 - ybc[0], ybc[-1] - y0) - 2 * ystep
    if rmax <= 0:
        if rec is not None:
            rec.exclude("rotation axis offset leaves no scanned disc")
        return []
    r = rmax * np.sqrt(case["rfrac"])
    a = np.radians(case["ang"])
    sx, sy = r * np.cos(a), r * np.sin(a)
    fails = []

    def sino_of(px, py):
        d = G.dty_values_grain_in_beam(px, py, y0, omega)
        pos = (d - ymin) / ystep
        return np.exp(-0.5 * ((np.arange(ny)[:, None] - pos[None, :]) / 0.8) ** 2)
    ok, sino = guard(sino_of, sx, sy)
    if not ok:
        return [exc_failure("dty_values_grain_in_beam", sino)]
    ok, sp = guard(G.sino_shift_and_pad, y0, ny, ymin, ystep)
    if not ok:
        return [exc_failure("sino_shift_and_pad", sp)]
    shift, pad = sp
    ok, recon = guard(run_iradon, sino, omega, int(pad), shift)
    if not ok:
        return [exc_failure("run_iradon", recon)]
    ok, pr = guard(G.sample_to_recon, sx, sy, recon.shape, ystep)
    if not ok:
        return [exc_failure("sample_to_recon", pr)]
    ri, rj = np.unravel_index(np.argmax(recon), recon.shape)
    d = float(np.hypot(ri - pr[0], rj - pr[1]))
    where = "ny=%d %s ystep=%g y0 offset %.2f steps, position r=%.1f steps at %.0f deg, pad %d shift %.3f" % (
        ny, "0-360" if case["full"] else "0-180", ystep, case["y0off"], r / ystep, case["ang"], pad, shift)
    if d > 1.5:
        fails.append(fail("position", "reconstruction maximum at (%d,%d), geometry predicts (%.2f,%.2f): %.2f px "
                          "apart; %s" % (ri, rj, pr[0], pr[1], d, where), what="argmax"))
    scale = np.abs(recon).max()
    # the back-projection routine itself with the other interpolation kinds it offers: the per-projection shifts apply
    # whatever the interpolation
    kind = [None, "nearest", "cubic"][case["seed"] % 3]
    if kind is not None:
        from ImageD11.sinograms.roi_iradon import iradon
        ok, rk = guard(iradon, sino, omega, sino.shape[0] + int(pad), "hamming", kind, np.full(sino.shape, shift))
        if not ok:
            fails.append(exc_failure("iradon(interpolation=%s)" % kind, rk))
        else:
            ki, kj = np.unravel_index(np.argmax(rk), rk.shape)
            dk = float(np.hypot(ki - pr[0], kj - pr[1]))
            if rk.shape != recon.shape or dk > 2.0:
                fails.append(fail("position", "iradon(interpolation=%r) maximum at (%d,%d), geometry predicts (%.2f,%.2f): "
                                  "%.2f px apart (linear interpolation: %.2f); %s" % (kind, ki, kj, pr[0], pr[1], dk, d, where),
                                  what="argmax_" + kind))
    # half-scan weighting (apply_halfmask): a pure function of the sinogram - the caller's array is not touched, a
    # second call gives the same, twice the sinogram gives twice the reconstruction
    if case["seed"] % 2 == 0:
        keep = sino.copy()
        ok, h1 = guard(run_iradon, sino, omega, int(pad), shift, 1, None, True)
        ok2, h2 = guard(run_iradon, sino, omega, int(pad), shift, case["workers"], None, True)
        ok3, h3 = guard(run_iradon, 2.0 * keep, omega, int(pad), shift, 1, None, True)
        if not (ok and ok2 and ok3):
            fails.append(exc_failure("run_iradon(apply_halfmask=True)", h1 if not ok else (h2 if not ok2 else h3)))
        else:
            hs = np.abs(h1).max() + 1e-300
            if not np.array_equal(sino, keep):
                fails.append(fail("inputs", "run_iradon(apply_halfmask=True) modified the sinogram it was given; %s" % where,
                                  what="halfmask_input"))
            elif np.abs(h2 - h1).max() > 1e-9 * hs or np.abs(h3 - 2 * h1).max() > 4e-9 * hs:
                fails.append(fail("linearity", "run_iradon(apply_halfmask=True): a second call (%d workers) differs by "
                                  "%.3g, twice the sinogram differs from twice the result by %.3g (scale %.3g); %s" %
                                  (case["workers"], np.abs(h2 - h1).max(), np.abs(h3 - 2 * h1).max(), hs, where),
                                  what="halfmask"))
    # the module's own blob finder must put the grain at the simulated sample position
    ok, pos = guard(G.fit_sample_position_from_recon, recon, ystep)
    if ok and pos is not None:
        dpos = float(np.hypot(pos[0] - sx, pos[1] - sy)) / ystep
        if dpos > 2.0:
            fails.append(fail("position", "fit_sample_position_from_recon gives (%.2f, %.2f), simulated (%.2f, %.2f): "
                              "%.2f steps apart; %s" % (pos[0], pos[1], sx, sy, dpos, where), what="blobfit"))
        if rec is not None:
            rec.note("max_blobfit_error_steps", dpos, "max")
    elif not ok:
        fails.append(exc_failure("fit_sample_position_from_recon", pos))
    elif rec is not None:
        rec.exclude("fit_sample_position_from_recon found no blob")
    # linearity with a second grain
    rng = np.random.RandomState(case["seed"] % (2 ** 32))
    r2 = rmax * np.sqrt(rng.random_sample())
    a2 = rng.uniform(0, 2 * np.pi)
    sino2 = sino_of(r2 * np.cos(a2), r2 * np.sin(a2))
    if case["seed"] % 2:
        # a reflection seen in part of the projections only: empty columns in one of the two sinograms
        sino2[:, rng.random_sample(sino2.shape[1]) < 0.4] = 0.0
    al, be = 1.7, -0.6
    ok, rb = guard(run_iradon, sino2, omega, int(pad), shift)
    ok2, rc = guard(run_iradon, al * sino + be * sino2, omega, int(pad), shift)
    if ok and ok2:
        err = np.abs(rc - (al * recon + be * rb)).max()
        if err > 1e-9 * scale * 4:
            fails.append(fail("linearity", "iradon(a s1 + b s2) differs from a iradon(s1) + b iradon(s2) by %.3g "
                              "(scale %.3g); %s" % (err, scale, where), what="linearity"))
    else:
        fails.append(exc_failure("run_iradon", rb if not ok else rc))
    # workers
    ok, rw = guard(run_iradon, sino, omega, int(pad), shift, case["workers"])
    if ok:
        err = np.abs(rw - recon).max()
        if err > 1e-9 * scale:
            fails.append(fail("workers", "run_iradon with %d workers differs from 1 worker by %.3g (scale %.3g); %s" %
                              (case["workers"], err, scale, where), what="workers"))
    else:
        fails.append(exc_failure("run_iradon(workers=%d)" % case["workers"], rw))
    # ROI mask: containing or not containing the grain
    mask = np.zeros(recon.shape, bool)
    i0, i1 = sorted(rng.randint(0, recon.shape[0], 2))
    j0, j1 = sorted(rng.randint(0, recon.shape[1], 2))
    mask[i0:i1 + 1, j0:j1 + 1] = True
    if rng.random_sample() < 0.5:
        mask[max(ri - 2, 0):ri + 3, max(rj - 2, 0):rj + 3] = True
    for w in (1, case["workers"]):
        ok, rm = guard(run_iradon, sino, omega, int(pad), shift, w, mask)
        if ok:
            if np.abs(rm[mask] - recon[mask]).max() > 1e-9 * scale or np.abs(rm[~mask]).max(initial=0) != 0:
                fails.append(fail("roi", "ROI reconstruction (workers %d) differs from the full one on the mask or "
                                  "is non-zero outside; %s" % (w, where), what="roi"))
        else:
            fails.append(exc_failure("run_iradon(mask)", rm))
    if rec is not None:
        nt = abs(case["y0off"]) >= 2 or ny % 2 == 0 or case["rfrac"] >= 0.25
        rec.case(case, nt, ["recon", "full" if case["full"] else "half", "even" if ny % 2 == 0 else "odd"])
        rec.note("max_position_error_px", d, "max")
    return fails


# ------------------------------------------------------------------ consumers: GrainSinogram, PBPRefine.setmask

@st.composite
def consumercases(draw):
    c = draw(reconcases())
    c["which"] = draw(st.sampled_from(["grainsino", "grainsino", "setmask"]))
    c["nproj"] = draw(st.integers(40, 200))
    c["label"] = draw(st.sampled_from([0, 1, 3]))
    c["icolf"] = draw(st.booleans())
    c["ostep"] = 1
    if c["which"] == "setmask" and draw(st.booleans()):
        # a wide, coarser scan: the disc can sit 100+ steps from the axis, where a fraction of a degree shows
        c["ny"] = draw(st.integers(150, 400))
        c["ostep"] = draw(st.sampled_from([1, 2, 3]))
        c["rfrac"] = max(c["rfrac"], 0.8)
    if draw(st.sampled_from([False, False, True])):
        # rotation axis exactly on the sinogram centre: the module's shift is exactly 0.0
        c["y0off"] = 0.5
        c["yminoff"] = float(round(c["yminoff"]))
    return c


def make_dataset(ybc, full, ostep=1):
    """A DataSet whose bins are made by the library's own guessbins from a regular (dty, omega) scan"""
    from ImageD11.sinograms import dataset
    nom = (360 if full else 180) // ostep
    ds = dataset.DataSet()
    ds.shape = (len(ybc), nom)
    ds.omega = np.outer(np.ones(len(ybc)), (np.arange(nom) + 0.5) * ostep)
    ds.dty = np.outer(ybc, np.ones(nom))
    ds.guessbins()
    return ds


def check_consumers(case, rec=None):
    import io, contextlib
    from ImageD11.sinograms import geometry as G, sinogram, point_by_point as pbp
    from ImageD11 import grain, columnfile
    from vf import gens
    ystep, ny = case["ystep"], case["ny"]
    ymin = case["yminoff"] * ystep
    ybc = ymin + np.arange(ny) * ystep
    y0 = 0.5 * (ybc[0] + ybc[-1]) + case["y0off"] * ystep
    orange = 360 if case["full"] else 180
    rmax = min(y0 - ybc[0], ybc[-1] - y0) - 2 * ystep
    if rmax <= 4.5 * ystep:
        if rec is not None:
            rec.exclude("rotation axis offset leaves no scanned disc")
        return []
    rng = np.random.RandomState(case["seed"] % (2 ** 32))
    fails = []
    with contextlib.redirect_stdout(io.StringIO()):
        ok, ds = guard(make_dataset, ybc, case["full"], case.get("ostep", 1))
    if not ok:
        return [exc_failure("DataSet.guessbins", ds)]
    if not (np.allclose(ds.ybincens, ybc, rtol=0, atol=1e-9 * (abs(ybc).max() + 1)) and abs(ds.ystep - ystep) < 1e-9 * ystep):
        return [fail("bins", "DataSet.guessbins: ybincens/ystep differ from the scanned dty values", what="bins")]
    where = "ny=%d %s%s ystep=%g y0 offset %.2f steps" % (ny, "0-360" if case["full"] else "0-180",
                                                          " in %d degree steps" % case["ostep"] if case.get("ostep", 1) > 1
                                                          else "", ystep, case["y0off"])
    if case["which"] == "grainsino":
        r = rmax * np.sqrt(case["rfrac"])
        a = np.radians(case["ang"])
        sx, sy = r * np.cos(a), r * np.sin(a)
        nproj, label = case["nproj"], case["label"]
        UB = gens.rotation_from_seed(case["seed"]) @ (np.eye(3) / 4.0)
        g = grain.grain(np.linalg.inv(UB))
        hk = [(h, k, l) for h in range(-3, 4) for k in range(-3, 4) for l in range(-3, 4) if (h, k, l) != (0, 0, 0)]
        combos = [(h, sg) for h in hk for sg in (-1, 1)]
        sel = rng.permutation(len(combos))[:nproj]
        om_p = ((np.arange(nproj) + rng.uniform(0.05, 0.95, nproj)) * orange / nproj)[rng.permutation(nproj)]
        rows = {k: [] for k in ("gx", "gy", "gz", "omega", "dty", "eta", "sum_intensity")}
        expected = np.zeros((ny, nproj))
        cen = y0 - sx * np.sin(np.radians(om_p)) - sy * np.cos(np.radians(om_p))      # lab y = 0
        for pj, ci in enumerate(sel):
            hkl, es = combos[ci]
            prof = np.exp(-0.5 * ((np.arange(ny) - (cen[pj] - ymin) / ystep) / 0.8) ** 2)
            scale = rng.uniform(10, 1000)
            for b in np.nonzero(prof > 1e-3)[0]:
                gv = UB @ np.array(hkl, float) + rng.normal(0, 1e-5, 3)
                for k, v in zip(("gx", "gy", "gz"), gv):
                    rows[k].append(v)
                rows["omega"].append(om_p[pj])
                rows["dty"].append(ybc[b] + rng.uniform(-0.3, 0.3) * ystep)
                rows["eta"].append(es * rng.uniform(5, 175))
                rows["sum_intensity"].append(prof[b] * scale)
                expected[b, pj] += prof[b] * scale
        nown = len(rows["gx"])
        for _ in range(50):                     # peaks of something else: not indexed by this grain
            gv = UB @ (rng.randint(-3, 4, 3) + rng.uniform(0.3, 0.7, 3))
            for k, v in zip(("gx", "gy", "gz"), gv):
                rows[k].append(v)
            rows["omega"].append(rng.uniform(0, orange))
            rows["dty"].append(ybc[rng.randint(ny)])
            rows["eta"].append(rng.uniform(-175, 175))
            rows["sum_intensity"].append(rng.uniform(10, 1000))
        perm = rng.permutation(len(rows["gx"]))
        cf = columnfile.colfile_from_dict({k: np.array(v)[perm] for k, v in rows.items()})

        def pipeline():
            gs = sinogram.GrainSinogram(g, ds)
            gs.prepare_peaks_from_2d(cf, label, 0.25)
            gs.build_sinogram()
            return gs
        with contextlib.redirect_stdout(io.StringIO()):
            ok, gs = guard(pipeline)
        if not ok:
            return [exc_failure("GrainSinogram.prepare_peaks_from_2d/build_sinogram", gs)]
        order = np.argsort(om_p)
        exp = expected[:, order] / expected[:, order].max(axis=0)
        if gs.cf_for_sino.nrows != nown:
            fails.append(fail("grainsino", "prepare_peaks_from_2d(label %d) keeps %d peaks, %d belong to the grain; %s" %
                              (label, gs.cf_for_sino.nrows, nown, where), what="peaks"))
        elif gs.ssino.shape != exp.shape or np.abs(gs.ssino - exp).max() > 1e-5 or \
                np.abs(gs.sinoangles - om_p[order]).max() > 1e-3:
            fails.append(fail("grainsino", "build_sinogram: sinogram (NY x projections, sorted by angle, each projection "
                              "normalised) or its angles differ from the binned peaks; %s" % where, what="sino"))
        else:
            cf4 = columnfile.colfile_from_dict({"grain_id": np.full(nproj, label), "omega": om_p, "dty": cen})
            ok, e = guard(gs.update_lab_position_from_peaks, cf4, label)
            if not ok:
                return [exc_failure("update_lab_position_from_peaks", e)]
            t = np.asarray(gs.grain.translation, float)
            if np.hypot(t[0] - sx, t[1] - sy) > 1e-4 * (r + ystep) or abs(gs.recon_y0 - y0) > 1e-4 * (r + ystep) or t[2] != 0:
                fails.append(fail("grainsino", "update_lab_position_from_peaks: translation %s y0 %r, simulated (%.4f, "
                                  "%.4f) y0 %.4f; %s" % (t.tolist(), gs.recon_y0, sx, sy, y0, where), what="fit"))
            # (the fitted axis position was compared above; the exact one is used from here on, so that the class
            #  "axis exactly on the sinogram centre, shift == 0.0" really occurs)
            ok, sp = guard(G.sino_shift_and_pad, y0, ny, ymin, ystep)
            if not ok:
                return fails + [exc_failure("sino_shift_and_pad", sp)]
            if rec is not None and sp[0] == 0.0:
                rec.note("grainsino_cases_with_zero_shift", 1, "sum")
            # a first, rough guess of the axis position (3.2 steps off), then the fitted one on the same object
            ok, sp0 = guard(G.sino_shift_and_pad, gs.recon_y0 + 3.2 * ystep, ny, ymin, ystep)
            if not ok:
                sp0 = None
            if ok:
                gs.update_recon_parameters(pad=int(sp0[1]), shift=sp0[0], y0=gs.recon_y0 + 3.2 * ystep)
            gs.update_recon_parameters(pad=int(sp[1]), shift=sp[0], y0=y0)
            if not (gs.recon_shift == sp[0] and gs.recon_pad == int(sp[1]) and gs.recon_y0 == y0):
                fails.append(fail("grainsino", "update_recon_parameters(pad=%r, shift=%r, y0=%r) left pad=%r shift=%r "
                                  "y0=%r; %s" % (int(sp[1]), sp[0], y0, gs.recon_pad, gs.recon_shift, gs.recon_y0, where),
                                  what="params"))
            with contextlib.redirect_stdout(io.StringIO()):
                ok, rc = guard(gs.recon, workers=2)
            if not ok:
                return fails + [exc_failure("GrainSinogram.recon", rc)]
            ri, rj = np.unravel_index(np.argmax(rc), rc.shape)
            pr = G.sample_to_recon(sx, sy, rc.shape, ystep)
            d = float(np.hypot(ri - pr[0], rj - pr[1]))
            if d > 1.5:
                fails.append(fail("grainsino", "GrainSinogram.recon maximum at (%d,%d), geometry predicts (%.2f,%.2f): "
                                  "%.2f px apart (%d projections); %s" % (ri, rj, pr[0], pr[1], d, nproj, where),
                                  what="argmax"))
            # ---- the same object asked again with a region-of-interest mask, another mask, and no mask
            full = np.array(rc, float)
            scale = np.abs(full).max()
            # ---- a second grain object reconstructed with another axis guess: each object keeps its own result
            with contextlib.redirect_stdout(io.StringIO()):
                ok, gsB = guard(pipeline)
                if ok and sp0 is not None:
                    gsB.update_recon_parameters(pad=int(sp0[1]), shift=sp0[0], y0=y0 + 3.2 * ystep)
                    ok, rcB = guard(gsB.recon, workers=2)
            if ok:
                st_ = gs.recons.get("iradon")
                if st_ is None or np.shape(st_) != full.shape or not np.array_equal(np.asarray(st_, float), full):
                    fails.append(fail("grainsino", "after reconstructing a second GrainSinogram (other axis guess) the "
                                      "first object's stored reconstruction is no longer its own; %s" % where,
                                      what="twoobjects"))
                if gs.recon_shift != sp[0] or gs.recon_y0 != y0:
                    fails.append(fail("grainsino", "update_recon_parameters on a second GrainSinogram changed the first "
                                      "object's parameters; %s" % where, what="twoobjects"))
            mrng = np.random.RandomState((case["seed"] + 5) % (2 ** 32))
            for step in range(3):
                if step < 2:
                    M = np.zeros(full.shape, bool)
                    i0, i1 = sorted(mrng.randint(0, full.shape[0], 2))
                    j0, j1 = sorted(mrng.randint(0, full.shape[1], 2))
                    M[i0:i1 + 1, j0:j1 + 1] = True
                    gs.update_recon_parameters(mask=M)
                else:
                    M = np.ones(full.shape, bool)
                    gs.recon_mask = None
                with contextlib.redirect_stdout(io.StringIO()):
                    ok, rm = guard(gs.recon, workers=2)
                if not ok:
                    fails.append(exc_failure("GrainSinogram.recon (mask history)", rm))
                    break
                rm = np.asarray(rm, float)
                if rm.shape != full.shape or np.abs(rm[M] - full[M]).max(initial=0) > 1e-9 * scale or \
                        np.abs(rm[~M]).max(initial=0) != 0:
                    fails.append(fail("grainsino", "GrainSinogram.recon, step %d of a mask history on one object (mask, "
                                      "other mask, no mask): not the full reconstruction on the region of interest "
                                      "and zero outside; %s" % (step, where), what="maskhistory"))
                    break
            gs.recon_mask = None
            gs.recons["iradon"] = full
            gs.grain.translation = None
            ok, e = guard(gs.update_lab_position_from_recon)
            if not ok:
                fails.append(exc_failure("update_lab_position_from_recon", e))
            elif gs.grain.translation is None:
                if rec is not None:
                    rec.exclude("update_lab_position_from_recon found no blob")
            else:
                t = np.asarray(gs.grain.translation, float)
                if np.hypot(t[0] - sx, t[1] - sy) > 2.0 * ystep:
                    fails.append(fail("grainsino", "update_lab_position_from_recon gives %s, simulated (%.2f, %.2f); %s" %
                                      (t.tolist(), sx, sy, where), what="blob"))
            if rec is not None:
                rec.note("max_grainsino_position_error_px", d, "max")
    else:
        # a uniform disc of sample; the refinement mask must sit on it in the map's own grid
        R = rng.uniform(4 * ystep, max(4.01 * ystep, (0.25 if ny >= 150 else 0.9) * rmax))
        rc_ = (rmax - R) * np.sqrt(case["rfrac"])
        a = np.radians(case["ang"])
        cx, cy = rc_ * np.cos(a), rc_ * np.sin(a)
        # noise-free peak list: in every (dty, omega) bin a number of peaks proportional to the chord of the disc
        omc = np.asarray(ds.obincens, float)
        tc = y0 - cx * np.sin(np.radians(omc)) - cy * np.cos(np.radians(omc))
        chord = 2 * np.sqrt(np.clip(R * R - (ybc[:, None] - tc[None, :]) ** 2, 0, None)) / ystep
        cnt = np.rint(chord * 0.5).astype(int)
        bi, oi = np.nonzero(cnt)
        dty = np.repeat(ybc[bi], cnt[bi, oi])
        om = np.repeat(omc[oi], cnt[bi, oi])
        pm_ = rng.permutation(len(dty))
        dty, om = dty[pm_], om[pm_]
        cf = columnfile.colfile_from_dict({"dty": dty, "omega": om})

        def pipeline():
            ref = pbp.PBPRefine(ds, "phase", y0=y0)
            ij = np.array(G.step_grid_from_ybincens(ybc, ystep, 1, y0))
            if case["seed"] % 2 and len(ij) > 25:
                # a map with holes: one interior row and one interior column of grid points hold no grain (a sample in
                # pieces): the refinement grid still spans the whole extent, one point per step
                i0_ = int(np.median(ij[:, 0])) + 1
                j0_ = int(np.median(ij[:, 1])) - 1
                ij = ij[(ij[:, 0] != i0_) & (ij[:, 1] != j0_)]
            pm = pbp.PBPMap(new=True)
            pm.nrows = len(ij)
            pm.addcolumn(ij[:, 0].copy(), "i")
            pm.addcolumn(ij[:, 1].copy(), "j")
            ref.setmap(pm)
            if case["icolf"]:
                ref.icolf = cf
            else:
                ref.colf = cf
            ref.setmask(use_icolf=case["icolf"])
            return ref
        with contextlib.redirect_stdout(io.StringIO()):
            ok, ref = guard(pipeline)
        if not ok:
            return [exc_failure("PBPRefine.setmap/setmask", ref)]
        m = np.asarray(ref.mask, bool)
        ijf = np.array(G.step_grid_from_ybincens(ybc, ystep, 1, y0))
        gi_, gj_ = np.meshgrid(np.arange(ijf[:, 0].min(), ijf[:, 0].max() + 1),
                               np.arange(ijf[:, 1].min(), ijf[:, 1].max() + 1), indexing="ij")
        ex_, ey_ = G.step_to_sample(gi_, gj_, ystep)
        if np.shape(ref.sx_grid) != ex_.shape or not (np.allclose(ref.sx_grid, ex_, atol=1e-9 * ystep) and
                                                        np.allclose(ref.sy_grid, ey_, atol=1e-9 * ystep)):
            fails.append(fail("setmask", "setmap: the refinement grid (shape %s) is not the step grid of the map's extent "
                              "(shape %s) in sample coordinates%s; %s" % (np.shape(ref.sx_grid), ex_.shape,
                              " - the map has a row and a column without grains" if case["seed"] % 2 else "", where),
                              what="grid"))
        elif m.shape != ref.sx_grid.shape:
            fails.append(fail("setmask", "setmask: mask shape %s, map grid %s; %s" % (m.shape, ref.sx_grid.shape, where),
                              what="shape"))
        elif m.sum() == 0:
            fails.append(fail("setmask", "setmask: empty mask for a disc of radius %.1f steps; %s" % (R / ystep, where),
                              what="empty"))
        else:
            mx, my = ref.sx_grid[m].mean(), ref.sy_grid[m].mean()
            d = float(np.hypot(mx - cx, my - cy)) / ystep
            ratio = m.sum() * ystep ** 2 / (np.pi * R * R)
            if d > 1.5 or not 0.5 < ratio < 2.5:
                fails.append(fail("setmask", "setmask: mask centred at (%.2f, %.2f) with %.2f of the disc's area, the "
                                  "sample disc is at (%.2f, %.2f): %.2f steps apart; radius %.1f steps; %s" %
                                  (mx, my, ratio, cx, cy, d, R / ystep, where), what="position"))
            if rec is not None:
                rec.note("max_setmask_centre_error_steps", d, "max")
                rec.note("setmask_area_ratio_max", ratio, "max")
                rec.note("setmask_area_ratio_min", ratio, "min")
    if rec is not None:
        nt = abs(case["y0off"]) >= 2 or ny % 2 == 0 or case["rfrac"] >= 0.25
        rec.case(case, nt, ["consumer:" + case["which"]] + (["consumer:setmask_wide_scan"] if ny >= 150 else []))
    return fails


def run_shard(rec):
    quick = rec.tier == "quick"
    hyp_run(rec, "conversions", convcases(), lambda c: check_conv(c, rec), max_examples=150 if quick else 2000)
    hyp_run(rec, "recon", reconcases(), lambda c: check_recon(c, rec), max_examples=25 if quick else 400)
    hyp_run(rec, "consumers", consumercases(), lambda c: check_consumers(c, rec), max_examples=12 if quick else 200,
            shrink=not quick)


def replay(sub, case, rec):
    if sub == "consumers":
        return check_consumers(case, rec)
    return check_recon(case, rec) if sub == "recon" else check_conv(case, rec)
