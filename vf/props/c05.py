"""C05 - two indexed reflections determine the correct orientation (Busing-Levy)."""
import numpy as np
from hypothesis import strategies as st
from vf import gens
from vf.runner import hyp_run, run_cases, guard, fail, exc_failure

THOROUGH_SCALE = 2      # multiplies every generated-case budget of the thorough tier
RULE = ("lattice (7 families incl. triclinic and rhombohedral in both settings, pseudo-symmetric cells c=a(1+1e-3), "
        "centrings P/I/F/A/B/C and R on hexagonal axes, cell edges from 2.5 to 108 A) x makerings(d* limit giving <= ~14 rings, tol) x ring pair "
        "(r1,r2) among the first 10 rings incl. r1=r2 x true hkl pairs drawn from the two rings (all pairs of rings "
        "with <= 48 members in the thorough tier, up to 24 sampled pairs otherwise) x uniform rotation; ring/pair-table cache histories (rings re-made with another limit or tolerance on the same object, compared with a fresh object); "
        "g = U.B.h exact; oracle: truth known, candidate equivalent iff UBI_cand.UB_true is integer unimodular "
        "with det +1; non-trivial = the angle class holds >= 2 inequivalent hkl pairs, or r1=r2, or a non-cubic "
        "cell; distinct = hash of (cell, centring, ring pair, hkl pair, rotation)")
ASSUMPTIONS = ["pairs with |cos(angle)| >= 0.98 are treated by the library as collinear (never tabulated): excluded, counted",
               "equivalence tolerance 1e-6 on integrality, cell parameters 1e-6 relative",
               "with plain nearest-cosine orient() equivalence to truth is asserted only when the crange=1e-7 list "
               "holds exactly one candidate (unique angle class)"]

CENTRINGS = {"cubic": "PIF", "tetragonal": "PI", "orthorhombic": "PIFABC", "hexagonal": "PR", "rhombohedral": "P",
             "monoclinic": "PCAI", "triclinic": "P"}


def shard_layout(tier):
    return [("opt", None)] * (8 if tier == "quick" else 16)


@st.composite
def cases(draw):
    fam, cell = draw(gens.cells(lo=2.5, hi=9.0, families=gens.FAMILIES + ("triclinic", "monoclinic")))
    pseudo = draw(st.sampled_from([False, False, False, True]))
    if pseudo and fam in ("cubic", "tetragonal", "hexagonal"):
        cell = list(cell)
        cell[2] = cell[0] * (1 + draw(st.sampled_from([1e-3, 1e-4, 2e-5])))
        fam = {"cubic": "tetragonal"}.get(fam, fam)
    # cell size: the property covers any lattice; large cells give small d* on the low order rings
    scale = draw(st.sampled_from([1.0, 1.0, 1.0, 4.0, 12.0]))
    cell = [x * scale for x in cell[:3]] + list(cell[3:])
    # one long axis (layered structures): reflections a few degrees apart on the low rings
    if scale == 1.0 and fam in ("tetragonal", "hexagonal", "orthorhombic", "monoclinic", "triclinic") and \
            draw(st.sampled_from([0, 0, 1])):
        k = 2 if fam in ("tetragonal", "hexagonal") else draw(st.sampled_from([1, 2]))
        cell[k] = cell[k] * draw(st.sampled_from([3.0, 4.7, 6.0]))
    sym = draw(st.sampled_from(CENTRINGS[fam]))
    nrings = draw(st.integers(3, 10))
    r1 = draw(st.integers(0, 9))
    r2 = draw(st.sampled_from([None, None, None, "same"]))
    if r2 is None:
        r2 = draw(st.integers(0, 9))
    U = draw(gens.rotations())
    seed = draw(st.integers(0, 2 ** 31 - 1))
    crange = draw(st.sampled_from([1e-7, 1e-4, 0.002, 0.3, 2.5]))
    return dict(family=fam, cell=[float(x) for x in cell], sym=sym, pseudo=pseudo, nrings=nrings, r1=r1, r2=r2,
                U=U, seed=seed, crange=crange)


def equivalent(ubi, UBtrue, tol=1e-6):
    M = ubi @ UBtrue
    R = np.rint(M)
    return np.abs(M - R).max() < tol and abs(np.linalg.det(R) - 1) < 1e-9


def check(case, rec=None, allpairs=False):
    from ImageD11 import unitcell
    from vf import oracles
    cell, sym = case["cell"], case["sym"]
    ok, uc = guard(unitcell.unitcell, cell, sym)
    if not ok:
        return [exc_failure("unitcell()", uc)]
    # d* limit: walk up until the requested number of rings exists
    B = gens.busing_levy_B(cell)
    dstar = np.sort(np.sqrt(np.diag(B.T @ B)))
    dsmax = dstar[0] * 1.05
    rtol = 0.001 if not case["pseudo"] else 0.003
    for _ in range(16):
        ok, pk = guard(uc.gethkls, dsmax + rtol)
        if not ok:
            return [exc_failure("gethkls", pk)]
        if len(pk) == 0:          # makerings needs at least one reflection below the limit
            dsmax *= 1.25
            continue
        ok, e = guard(uc.makerings, dsmax, rtol)
        if not ok:
            return [exc_failure("makerings", e)]
        if len(uc.ringds) >= case["nrings"] or len(uc.peaks) > 1500:
            break
        dsmax *= 1.25
    nr = len(uc.ringds)
    r1 = case["r1"] % nr
    r2 = r1 if case["r2"] == "same" else case["r2"] % nr
    if case.get("nearcut"):
        # two reflections 11.5 - 12.8 degrees apart (|cos| just below the library's collinearity cut of 0.98), the
        # pair with the smallest d*; the rings are made up to there and the two rings looked up
        H = np.mgrid[-5:6, -5:6, -5:6].reshape(3, -1).T
        H = H[np.abs(H).sum(axis=1) > 0]
        from vf.props.c03 import allowed
        H = H[allowed(sym, H[:, 0], H[:, 1], H[:, 2])]
        Gh = H @ B.T
        dsh = np.linalg.norm(Gh, axis=1)
        H, Gh, dsh = H[dsh < 4 * dstar[-1]], Gh[dsh < 4 * dstar[-1]], dsh[dsh < 4 * dstar[-1]]
        Cc = np.abs((Gh / dsh[:, None]) @ (Gh / dsh[:, None]).T)
        ia, ib = np.nonzero((Cc >= 0.9752) & (Cc < 0.98 - 1e-6))
        if len(ia) == 0:
            if rec is not None:
                rec.exclude("no pair of low-order reflections within 1.3 degrees of the collinearity cut")
            return []
        k = int(np.argmin(np.maximum(dsh[ia], dsh[ib])))
        ha, hb = tuple(int(x) for x in H[ia[k]]), tuple(int(x) for x in H[ib[k]])
        dsmax = float(max(dsh[ia[k]], dsh[ib[k]])) * 1.01 + rtol
        ok, e = guard(uc.makerings, dsmax, rtol)
        if not ok:
            return [exc_failure("makerings", e)]
        if len(uc.peaks) > 6000:
            if rec is not None:
                rec.exclude("near-cut pair only at a d* with more than 6000 reflections")
            return []
        find = lambda h: [q for q, dsr in enumerate(uc.ringds) if h in [tuple(int(x) for x in hh) for hh in uc.ringhkls[dsr]]]
        fa, fb = find(ha), find(hb)
        if not fa or not fb:
            return [fail("nocandidate", "reflections %s / %s below the ring limit %.4f are in no ring" % (ha, hb, dsmax),
                         mode="rings")]
        nr, r1, r2 = len(uc.ringds), fa[0], fb[0]
    h1s = [np.array(h) for h in uc.ringhkls[uc.ringds[r1]]]
    h2s = [np.array(h) for h in uc.ringhkls[uc.ringds[r2]]]
    U = np.asarray(case["U"], float)
    UB = U @ B
    rng = np.random.RandomState(case["seed"] % (2 ** 32))
    pairs = [(a, b) for a in range(len(h1s)) for b in range(len(h2s))]
    if not (allpairs and len(h1s) <= 48 and len(h2s) <= 48):
        rng.shuffle(pairs)
        # always among them: the pairs closest to the library's collinearity cut (|cos| just below 0.98)
        G1 = np.array(h1s, float) @ UB.T
        G2 = np.array(h2s, float) @ UB.T
        C = np.abs((G1 / np.linalg.norm(G1, axis=1)[:, None]) @ (G2 / np.linalg.norm(G2, axis=1)[:, None]).T)
        near = sorted([p_ for p_ in pairs if C[p_] < 0.98 - 1e-9], key=lambda p_: -C[p_])[:6]
        pairs = near + [p_ for p_ in pairs if p_ not in near][:24 - len(near)]
    fails = []
    ntested = 0
    degenerate = 0
    for a, b in pairs:
        h1, h2 = h1s[a], h2s[b]
        g1, g2 = UB @ h1, UB @ h2
        cosang = g1 @ g2 / np.sqrt((g1 @ g1) * (g2 @ g2))
        if abs(cosang) >= 0.98 - 1e-9:
            if rec is not None:
                rec.exclude("hkl pair with |cos| >= 0.98 (treated as collinear by the library)")
            continue
        ntested += 1
        where = "cell %s %s rings %d,%d h1=%s h2=%s" % (np.round(cell, 4).tolist(), sym, r1, r2, h1.tolist(), h2.tolist())
        for crange in (case["crange"], 1e-7):
            ok, e = guard(uc.orient, r1, g1.copy(), r2, g2.copy(), 0, crange)
            if not ok:
                fails.append(exc_failure("orient(crange=%g)" % crange, e))
                break
            cands = [np.asarray(u, float) for u in uc.UBIlist]
            if not cands:
                fails.append(fail("nocandidate", "orient(crange=%g) returned no candidate; %s" % (crange, where),
                                  mode="crange"))
                break
            for k, u in enumerate(cands):
                if np.linalg.det(u) <= 0:
                    fails.append(fail("handedness", "candidate %d is left handed; %s" % (k, where), mode="crange"))
                cp = oracles.cellpars_from_ubi(u)
                if crange <= 1e-6 and not (np.allclose(cp[:3], cell[:3], rtol=1e-6) and
                                           np.allclose(cp[3:], cell[3:], atol=1e-5)):
                    fails.append(fail("cell", "candidate %d has cell %s; %s" % (k, np.round(cp, 5).tolist(), where),
                                      mode="crange"))
            if not any(equivalent(u, UB) for u in cands):
                fails.append(fail("truth_missing", "orient(crange=%g): none of the %d candidates is equivalent to the "
                                  "generating orientation; %s" % (crange, len(cands), where), mode="crange"))
            for i in range(len(cands)):
                for j in range(i + 1, len(cands)):
                    if equivalent(cands[i], np.linalg.inv(cands[j])):
                        fails.append(fail("duplicate", "orient(crange=%g): candidates %d and %d describe the same "
                                          "lattice; %s" % (crange, i, j, where), mode="crange"))
            if fails:
                break
        if fails:
            break
        nclass = len(uc.UBIlist)      # at crange 1e-7: inequivalent pairs in this angle class
        if nclass >= 2:
            degenerate += 1
        ok, e = guard(uc.orient, r1, g1.copy(), r2, g2.copy())
        if not ok:
            fails.append(exc_failure("orient()", e))
            break
        u = np.asarray(uc.UBI, float)
        if np.linalg.det(u) <= 0:
            fails.append(fail("handedness", "orient(): left handed UBI; %s" % where, mode="plain"))
        for g in (g1, g2):
            hh = u @ g
            if nclass == 1 and np.abs(hh - np.rint(hh)).max() > 1e-6:
                fails.append(fail("indexing", "orient(): UBI gives hkl %s to an input reflection; %s" % (hh, where),
                                  mode="plain"))
        if nclass == 1 and not equivalent(u, UB):
            fails.append(fail("truth_missing", "orient(): unique angle class but the orientation is not equivalent "
                              "to the generating one; %s" % where, mode="plain"))
        if fails:
            break
    # ---- cache history: the pair table is cached per ring pair; re-making the rings (other limit, same
    #      tolerance; other tolerance) must not leave a stale table behind
    if not fails and ntested > 0:
        a, b = pairs[0]
        for lim2, tol2 in ((dsmax * 1.3, rtol), (dsmax, rtol * 2), (dsmax, rtol)):
            ok, e = guard(uc.makerings, lim2, tol2)
            if not ok:
                fails.append(exc_failure("makerings (history)", e))
                break
            fresh = unitcell.unitcell(cell, sym)
            fresh.makerings(lim2, tol2)
            for q1 in range(min(3, len(uc.ringds))):
                q2 = (q1 + 1) % len(uc.ringds)
                H1 = uc.ringhkls[uc.ringds[q1]]
                H2 = uc.ringhkls[uc.ringds[q2]]
                ga, gb = UB @ np.array(H1[0], float), UB @ np.array(H2[-1], float)
                cs = ga @ gb / np.sqrt((ga @ ga) * (gb @ gb))
                if abs(cs) >= 0.97:
                    continue
                ok1, e1 = guard(uc.orient, q1, ga.copy(), q2, gb.copy(), 0, 1e-7)
                ok2, e2 = guard(fresh.orient, q1, ga.copy(), q2, gb.copy(), 0, 1e-7)
                if ok1 != ok2:
                    fails.append(fail("cache", "orient after re-making the rings behaves differently from a fresh "
                                      "unitcell (%s vs %s); cell %s %s" % (e1, e2, np.round(cell, 4).tolist(), sym),
                                      mode="history"))
                elif ok1 and (len(uc.UBIlist) != len(fresh.UBIlist) or any(
                        np.abs(np.asarray(x) - np.asarray(y)).max() > 1e-9 for x, y in zip(uc.UBIlist, fresh.UBIlist))):
                    fails.append(fail("cache", "orient(rings %d,%d) after makerings(%g,%g) differs from a fresh unitcell "
                                      "object; cell %s %s" % (q1, q2, lim2, tol2, np.round(cell, 4).tolist(), sym),
                                      mode="history"))
                # the same two reflections named the other way round (the pair table of (q1, q2) is cached by now)
                if ok1 and q1 != q2:
                    ok3, e3 = guard(uc.orient, q2, gb.copy(), q1, ga.copy(), 0, 1e-7)
                    if not ok3:
                        fails.append(exc_failure("orient (rings named in the other order)", e3))
                    elif not any(equivalent(np.asarray(u, float), UB) for u in uc.UBIlist):
                        fails.append(fail("truth_missing", "orient(rings %d,%d) after orient(rings %d,%d) on the same "
                                          "object: none of the %d candidates is equivalent to the generating orientation; "
                                          "cell %s %s" % (q2, q1, q1, q2, len(uc.UBIlist), np.round(cell, 4).tolist(), sym),
                                          mode="history"))
                if fails:
                    break
            if fails:
                break
    if rec is not None:
        rec.count(max(ntested - 1, 0))
        nt = ntested > 0 and (degenerate > 0 or r1 == r2 or case["family"] != "cubic")
        rec.case(dict(case, U=U), nt, ["family:" + case["family"], "sym:" + sym] +
                 (["same_ring"] if r1 == r2 else []) + (["degenerate_class"] if degenerate else []) +
                 (["pseudo"] if case["pseudo"] else []))
        rec.note("hkl_pairs_tested", ntested)
    return fails


REGRESSION = [dict(family="triclinic", cell=[4.1, 5.2, 6.3, 80., 95., 105.], sym="P", pseudo=False, nrings=10,
                   r1=7, r2=0, U=gens.rotation_from_seed(5), seed=1, crange=1e-4)]


# ------------------------------------------------------------------ a ring completed by a second makerings call

@st.composite
def splitcases(draw):
    a = draw(st.floats(3.0, 8.0, allow_nan=False, width=64))
    delta = draw(st.sampled_from([5e-4, 1e-3, 2e-3]))
    cratio = draw(st.floats(1.45, 1.8, allow_nan=False, width=64))
    U = draw(gens.rotations())
    which = draw(st.sampled_from(["ab", "ba"]))
    return dict(a=a, delta=delta, cratio=cratio, U=U, which=which)


def check_split(case, rec=None):
    """Pseudo-tetragonal cell: (010) and (100) fall into one ring.  First the rings are made with a limit between the
    two d*, so the ring holds one family only, and a pair table is built; then the limit is raised just enough to
    complete that ring without adding another one (the list of ring positions is unchanged).  A peak of the family
    that arrived late must be oriented correctly."""
    from ImageD11 import unitcell
    a, d = case["a"], case["delta"]
    cell = [a, a * (1 + d), a * case["cratio"], 90.0, 90.0, 90.0]
    if case["which"] == "ba":
        cell[0], cell[1] = cell[1], cell[0]
    B = gens.busing_levy_B(cell)
    UB = np.asarray(case["U"], float) @ B
    dsa, dsb = sorted([1.0 / cell[0], 1.0 / cell[1]])
    tol = 3 * (dsb - dsa)
    lim1 = 0.5 * (dsa + dsb) - tol
    lim2 = dsb + 0.25 * (dsb - dsa)
    ok, uc = guard(unitcell.unitcell, cell, "P")
    if not ok:
        return [exc_failure("unitcell()", uc)]
    fails = []
    ok, e = guard(uc.makerings, lim1, tol)
    if not ok:
        return [exc_failure("makerings", e)]
    rings1 = [list(map(tuple, uc.ringhkls[x])) for x in uc.ringds]
    if len(rings1) != 2 or len(rings1[1]) != 2:
        raise RuntimeError("harness: expected rings {00l} and one of the two in-plane families, got %s" % rings1)
    early = np.array(rings1[1][0], float)
    late = np.array([1.0, 0, 0]) if abs(early[1]) == 1 else np.array([0, 1.0, 0])
    g001 = UB @ np.array([0, 0, 1.0])
    ok, e = guard(uc.orient, 0, g001.copy(), 1, UB @ early, 0, 1e-7)
    if not ok:
        return [exc_failure("orient (first limit)", e)]
    if not any(equivalent(np.asarray(u, float), UB) for u in uc.UBIlist):
        fails.append(fail("split", "orient with the early family: generating orientation not among the candidates",
                          mode="split"))
    ok, e = guard(uc.makerings, lim2, tol)
    if not ok:
        return fails + [exc_failure("makerings (second limit)", e)]
    rings2 = [list(map(tuple, uc.ringhkls[x])) for x in uc.ringds]
    if len(rings2) != 2 or len(rings2[1]) != 4:
        raise RuntimeError("harness: second limit should complete ring 1 only, got %s" % rings2)
    for hk in (late, -late, early):
        ok, e = guard(uc.orient, 0, g001.copy(), 1, UB @ hk, 0, 1e-7)
        if not ok:
            fails.append(exc_failure("orient (ring completed by the second makerings)", e))
            break
        cands = [np.asarray(u, float) for u in uc.UBIlist]
        if not any(equivalent(u, UB) for u in cands):
            fails.append(fail("split", "after makerings(%.6g) then makerings(%.6g) (same tolerance, same ring positions, "
                              "ring 1 grown from 2 to 4 reflections): orient with %s of the late family returns %d "
                              "candidates, none equivalent to the generating orientation; cell %s" %
                              (lim1, lim2, hk.tolist(), len(cands), np.round(cell, 5).tolist()), mode="split"))
            break
    if rec is not None:
        rec.case(dict(case, U=np.asarray(case["U"])), True, ["ring_completed_later"])
    return fails


def run_shard(rec):
    quick = rec.tier == "quick"
    if rec.shard == 0:
        run_cases(rec, "pairs", REGRESSION, lambda c: check(c, rec, allpairs=True))
    hyp_run(rec, "pairs", cases(), lambda c: check(c, rec, allpairs=not quick),
            max_examples=200 if quick else 2500)
    hyp_run(rec, "nearcut", cases().map(lambda c: dict(c, nearcut=True, pseudo=False)), lambda c: check(c, rec),
            max_examples=12 if quick else 150)
    hyp_run(rec, "split", splitcases(), lambda c: check_split(c, rec), max_examples=25 if quick else 300)


def replay(sub, case, rec):
    if sub == "split":
        return check_split(case, rec)
    return check(case, rec, allpairs=True)
