"""C01 - pixel-to-g-vector geometry agrees across Python, C and numba implementations."""
import numpy as np
from hypothesis import strategies as st
from vf import oracles as O
from vf.runner import hyp_run, run_cases, guard, fail, exc_failure

THOROUGH_SCALE = 3      # multiplies every generated-case budget of the thorough tier
RULE = ("parameter sets = switch vector x magnitudes: every on/off combination of tilt_x, tilt_y, tilt_z, wedge, chi, "
        "t_x, t_y, t_z (2^8) x omegasign +-1 x sign of y_size and z_size (4) x the 8 orthogonal flips = 16384 "
        "combinations, enumerated exhaustively (x1 magnitude draw quick, x4 thorough) plus Hypothesis-sampled sets; "
        "magnitudes: centres 0-4096 px, |pixel| 10-200 um, distance 5e4-1e6 um, tilts +-0.2 rad, wedge/chi +-30 deg, "
        "|t|<=1000 um, wavelength 0.1-1.5 A; 24 peaks per set anywhere on a 4096^2 detector incl. the pixel "
        "nearest the beam centre, omega in [-720,720], one set in 16 with integer-typed sc/fc/omega arrays, one in 16 with columns that are strided views of a row-major table; oracle = geometry written in the harness from the "
        "documentation, compared with transform.py (Python), Ctransform / raw C kernels, columnfile fast and "
        "slow routes (fresh objects and update / edit-parameters / update histories on one object), numba point_by_point copy, get_local_gv, PixelLUT, refinegrains.assignlabels/compute_gv on one object across in-place parameter edits (one case in four); 1, 2, 3, 5 or 24 peaks; non-trivial = >=3 switches on, or omegasign=-1, "
        "or an off-diagonal flip, or (chi!=0 and t!=0); distinct = switch index x magnitude seed")
ASSUMPTIONS = ["tolerances: lab coordinates 1e-12*distance; g and k 1e-11/wavelength absolute (the C route forms "
               "cos(2theta)-1 and loses relative accuracy near the direct beam); tth 1e-9 deg; eta compared as "
               "sin(tth)*delta_eta (eta is undefined on the beam axis)",
               "the numba copy has no omegasign argument: it is compared on the omega it is given"]
EXHAUSTIVE = "the 16384-element on/off switch lattice of the geometry parameters"
WARMUP = ["ImageD11.sinograms.point_by_point"]

FLIPS = [(1, 0, 0, 1), (1, 0, 0, -1), (-1, 0, 0, 1), (-1, 0, 0, -1),
         (0, 1, 1, 0), (0, 1, -1, 0), (0, -1, 1, 0), (0, -1, -1, 0)]
SW = ["tilt_x", "tilt_y", "tilt_z", "wedge", "chi", "t_x", "t_y", "t_z"]
NPK = 24
NPKS = [24, 24, 3, 24, 1, 24, 2, 24, 3, 24, 5]


def shard_layout(tier):
    return [("opt", None)] * (8 if tier == "quick" else 16)


def warmup():
    from ImageD11.sinograms import point_by_point as pbp
    z = np.zeros(2)
    pbp.compute_gve(z + 1, z + 2, z, z, 1e5, 0., 50., 0., 0., 50., 0., 0., 1., 0., 0., -1., 0., 0., 0., 0., 0., 0.3)
    pbp.detector_rotation_matrix(0., 0., 0.)
    pbp.compute_grain_origins(z, 1., 1., 1., 1., 1.)
    pbp.compute_xyz_lab(z, z, 0., 50., 0., 0., 50., 0., 0., 1e5, 1., 0., 0., -1.)
    pbp.compute_k_vectors(z + 1, z, 0.3)
    pbp.compute_g_from_k(np.ones((3, 2)), z, 1., 1.)


def params_from(index, mseed):
    """index in [0,16384): bits 0-7 switches, 8 omegasign, 9 y sign, 10 z sign, 11-13 flip."""
    rng = np.random.RandomState((mseed * 16384 + index) % (2 ** 32))
    on = [(index >> b) & 1 for b in range(8)]
    flip = FLIPS[(index >> 11) & 7]
    p = dict(y_center=rng.uniform(0, 4096), z_center=rng.uniform(0, 4096),
             y_size=(-1 if (index >> 9) & 1 else 1) * rng.uniform(10, 200),
             z_size=(-1 if (index >> 10) & 1 else 1) * rng.uniform(10, 200),
             distance=10 ** rng.uniform(np.log10(5e4), 6), wavelength=rng.uniform(0.1, 1.5),
             omegasign=-1.0 if (index >> 8) & 1 else 1.0,
             o11=float(flip[0]), o12=float(flip[1]), o21=float(flip[2]), o22=float(flip[3]))
    mags = dict(tilt_x=rng.uniform(-0.2, 0.2), tilt_y=rng.uniform(-0.2, 0.2), tilt_z=rng.uniform(-0.2, 0.2),
                wedge=rng.uniform(-30, 30), chi=rng.uniform(-30, 30),
                t_x=rng.uniform(-1000, 1000), t_y=rng.uniform(-1000, 1000), t_z=rng.uniform(-1000, 1000))
    for name, o in zip(SW, on):
        p[name] = float(mags[name]) if o else 0.0
    if (index // 11 + mseed) % 5 == 0:
        # the geometry has no preferred length unit: the same experiment written in millimetres or metres
        u = 1e-3 if (index // 55 + mseed) % 2 else 1e-6
        for name in ("distance", "y_size", "z_size", "t_x", "t_y", "t_z"):
            p[name] = p[name] * u
    sc = rng.uniform(0, 4096, NPK)
    fc = rng.uniform(0, 4096, NPK)
    # the pixel nearest to the beam centre, and the exact centre
    sc[0], fc[0] = np.rint(p["z_center"]), np.rint(p["y_center"])
    sc[1], fc[1] = p["z_center"], p["y_center"] + 0.5
    om = rng.uniform(-720, 720, NPK)
    om[2] = 0.0
    om[3] = 180.0
    if (index // 7 + mseed) % 4 == 0:
        # peaks as they come off a scan: runs of exactly equal omega (5 peaks per frame), frames in acquisition order
        om = np.repeat(np.sort(rng.uniform(-720, 720, 5)), 5)[:NPK] if NPK <= 25 else om
    if index % 16 == (mseed + 3) % 16:
        # integer typed columns (pixel indices, whole degrees), as read from an integer HDF column
        sc = np.rint(sc).astype(np.int64)
        fc = np.rint(fc).astype(np.int64)
        om = np.rint(om).astype(np.int64)
    elif index % 16 == (mseed + 11) % 16:
        # columns that are strided views of a row-major table (one row per peak)
        tab = np.empty((NPK, 5))
        tab[:, 0], tab[:, 2], tab[:, 4] = sc, fc, om
        sc, fc, om = tab[:, 0], tab[:, 2], tab[:, 4]
    # number of peaks: usually 24, sometimes 1, 2, 3 (a 3 x 3 block is its own transpose's shape) or 5
    npk = NPKS[(index // 3 + mseed) % len(NPKS)]
    return p, sc[:npk], fc[:npk], om[:npk]


def nontrivial(index):
    on = bin(index & 255).count("1")
    chi_t = ((index >> 4) & 1) and ((index >> 5) & 7)
    return on >= 3 or (index >> 8) & 1 or ((index >> 11) & 7) >= 4 or bool(chi_t)


class Cmp(object):
    def __init__(self, p, ref):
        self.fails = []
        self.p = p
        self.ref = ref
        self.gt = 1e-11 / p["wavelength"]
        self.xt = 1e-12 * (abs(p["distance"]) + 4096 * max(abs(p["y_size"]), abs(p["z_size"])))

    def add(self, kind, route, what, err, tol):
        self.fails.append(fail(kind, "%s: %s differs from the reference formulas by %.3g (tolerance %.3g); "
                               "pars %s" % (route, what, err, tol, {k: (round(v, 6) if isinstance(v, float) else v)
                                                                    for k, v in self.p.items()}),
                               route=route, what=what))

    def xyz(self, route, got):          # got (n,3)
        got = np.asarray(got, float)
        if got.shape != (self.ref["xyz"].shape[1], 3):
            return self.add("shape", route, "xyz shape %s" % (got.shape,), 0, 0)
        e = np.abs(got.T - self.ref["xyz"]).max()
        if not e <= self.xt:
            self.add("xyz", route, "xl,yl,zl", e, self.xt)

    def g(self, route, got, ref=None):      # got (n,3)
        ref = self.ref["g"] if ref is None else ref
        got = np.asarray(got, float)
        if got.shape != (ref.shape[1], 3):
            return self.add("shape", route, "g shape %s" % (got.shape,), 0, 0)
        e = np.abs(got.T - ref).max()
        if not e <= self.gt:
            self.add("gvector", route, "gx,gy,gz", e, self.gt)

    def angles(self, route, tth, eta, ref=None):
        ref = self.ref if ref is None else ref
        e = np.abs(np.asarray(tth) - ref["tth"]).max()
        if not e <= 1e-9:
            self.add("tth", route, "tth", e, 1e-9)
        d = np.abs(O.eta_diff(eta, ref["eta"]) * np.sin(np.radians(ref["tth"]))).max()
        if not d <= 1e-9:
            self.add("eta", route, "eta (weighted by sin tth)", d, 1e-9)

    def ds(self, route, ds):
        e = np.abs(np.asarray(ds) - self.ref["ds"]).max()
        if not e <= self.gt:
            self.add("ds", route, "ds", e, self.gt)


def refinegrains_route(p, sc, fc, om, t, index, mseed, rec):
    """refinegrains.assignlabels (compiled kernel with the grain's translation) and refinegrains.compute_gv (Python
    route, omega as observed) must give the reference g-vectors, also after the parameters of the same object were
    edited in place (what a fit, the GUI and applyargs do)."""
    import io, contextlib
    from ImageD11 import refinegrains, columnfile, grain
    fails = []
    rng = np.random.RandomState((mseed * 31 + index) % (2 ** 32))
    with contextlib.redirect_stdout(io.StringIO()):
        o = refinegrains.refinegrains(tolerance=1.0, OmFloat=False)       # tolerance 1: every peak is taken by the grain
        o.parameterobj.set_parameters(dict(p))
        n = len(sc)
        cf = columnfile.colfile_from_dict({"sc": np.asarray(sc, float), "fc": np.asarray(fc, float),
                                           "omega": np.asarray(om, float), "xc": np.asarray(sc, float),
                                           "yc": np.asarray(fc, float), "labels": np.zeros(n), "drlv2": np.ones(n)})
        o.scannames.append("s")
        o.scantitles["s"] = cf.titles
        o.scandata["s"] = cf
        o.grainnames.append(0)
        o.ubisread[0] = np.eye(3) * 3.0
        o.translationsread[0] = np.array(t, float)
        ok, e = guard(o.generate_grains)
        if not ok:
            return [exc_failure("refinegrains.generate_grains", e)]
        steps = [dict(p)]
        p2 = dict(p)
        for name in ("wedge", "chi", "wavelength", "omegasign", "distance", "tilt_x"):
            if rng.random_sample() < 0.6:
                p2[name] = {"wedge": p["wedge"] + 2.5, "chi": p["chi"] - 1.5, "wavelength": p["wavelength"] * 1.01,
                            "omegasign": -p["omegasign"], "distance": p["distance"] * 1.02,
                            "tilt_x": p["tilt_x"] + 0.01}[name]
        steps.append(p2)
        steps.append(dict(p))
        for k, pp in enumerate(steps):
            if k:
                for name in pp:
                    if pp[name] != steps[k - 1][name]:
                        o.parameterobj.set(name, pp[name])               # in-place edit, object kept
            refk = O.geo_forward(sc, fc, om, pp, t)
            ck = Cmp(pp, refk)
            ok, e = guard(o.assignlabels, quiet=True)
            if not ok:
                return fails + [exc_failure("refinegrains.assignlabels (step %d)" % k, e)]
            d = o.scandata["s"]
            ck.g("refinegrains.assignlabels step %d of an edit-parameters history -> gx,gy,gz columns" % k,
                 np.array([d.gx, d.gy, d.gz]).T)
            gr = o.grains[(0, "s")]
            if len(gr.ind) == n:
                ok, e = guard(o.compute_gv, gr)
                if ok:
                    ck.g("refinegrains.compute_gv step %d of an edit-parameters history" % k, o.gv)
                    ck.angles("refinegrains.compute_gv step %d" % k, o.tth, o.eta)
                else:
                    fails.append(exc_failure("refinegrains.compute_gv", e))
            elif rec is not None:
                rec.exclude("refinegrains.compute_gv not compared: a peak was not assigned at tolerance 1")
            fails += ck.fails
            if ck.fails:
                break
    return fails


def check(case, rec=None):
    from ImageD11 import transform, cImageD11, columnfile, parameters
    from ImageD11.sinograms import point_by_point as pbp
    index, mseed = case["index"], case["mseed"]
    p, sc, fc, om = params_from(index, mseed)
    given = (sc, fc, om, dict(p))
    snapshot = (sc.copy(), fc.copy(), om.copy())
    t = (p["t_x"], p["t_y"], p["t_z"])
    ref = O.geo_forward(sc, fc, om, p, t)
    c = Cmp(p, ref)
    ome = om * p["omegasign"]
    if om.dtype.kind == "i" and p["omegasign"] == 1.0:
        ome = om              # whole-degree angles handed on as integers (what a direct caller with such a column does)
    pk = {k: v for k, v in p.items()}
    # ---- (0) the documented Python formulas themselves
    ok, xyz_py = guard(transform.compute_xyz_lab, [sc, fc], **pk)
    if not ok:
        return [exc_failure("transform.compute_xyz_lab", xyz_py)]
    c.xyz("transform.compute_xyz_lab", np.asarray(xyz_py).T)
    ok, r = guard(transform.compute_tth_eta_from_xyz, xyz_py, ome, **pk)
    if ok:
        c.angles("transform.compute_tth_eta_from_xyz", r[0], r[1])
        ok2, g = guard(transform.compute_g_vectors, r[0], r[1], ome, p["wavelength"], p["wedge"], p["chi"])
        if ok2:
            c.g("transform.compute_g_vectors", np.asarray(g).T)
        else:
            c.fails.append(exc_failure("transform.compute_g_vectors", g))
    else:
        c.fails.append(exc_failure("transform.compute_tth_eta_from_xyz", r))
    ok, r = guard(transform.compute_tth_eta, [sc, fc], omega=ome, **pk)
    if ok:
        c.angles("transform.compute_tth_eta", r[0], r[1])
    else:
        c.fails.append(exc_failure("transform.compute_tth_eta", r))
    ok, go = guard(transform.compute_grain_origins, ome, p["wedge"], p["chi"], *t)
    if ok:
        e = np.abs(np.asarray(go) - O.geo_grain_origins(ome, p, t)).max()
        if e > c.xt:
            c.add("origin", "transform.compute_grain_origins", "grain origin", e, c.xt)
    else:
        c.fails.append(exc_failure("transform.compute_grain_origins", go))
    ok, k = guard(transform.compute_k_vectors, ref["tth"], ref["eta"], p["wavelength"])
    if ok:
        e = np.abs(np.asarray(k) - ref["k"]).max()
        if e > c.gt:
            c.add("kvector", "transform.compute_k_vectors", "k", e, c.gt)
    else:
        c.fails.append(exc_failure("transform.compute_k_vectors", k))
    # ---- (i) Ctransform
    ok, ct = guard(transform.Ctransform, pk)
    if not ok:
        c.fails.append(exc_failure("Ctransform()", ct))
    else:
        ok, xyz_c = guard(ct.sf2xyz, sc, fc)
        if ok:
            c.xyz("Ctransform.sf2xyz", xyz_c)
            # an array handed out by one call is the caller's: later calls on the same object leave it alone
            kept = np.array(xyz_c, copy=True)
            ok2, other = guard(ct.sf2xyz, np.asarray(fc, float)[::-1].copy() * 0.5 + 3.0, np.asarray(sc, float) * 0.25)
            ok3, _g = guard(ct.sf2gv, np.asarray(sc, float) + 7.0, np.asarray(fc, float) - 2.0, om, *t)
            if ok2 and ok3 and not np.array_equal(np.asarray(xyz_c), kept):
                c.fails.append(fail("inputs", "Ctransform.sf2xyz: the array returned by an earlier call changed when "
                                    "the same object was used again (results share a work buffer)", what="aliased_result"))
            ok, g = guard(ct.xyz2gv, xyz_c, om, *t)
            if ok:
                c.g("Ctransform.xyz2gv", g)
            else:
                c.fails.append(exc_failure("Ctransform.xyz2gv", g))
            ok, geo = guard(ct.xyz2geometry, xyz_c, om, *t)
            if ok:
                geo = np.asarray(geo)
                c.angles("Ctransform.xyz2geometry", geo[:, 0], geo[:, 1])
                c.ds("Ctransform.xyz2geometry", geo[:, 2])
                c.g("Ctransform.xyz2geometry", geo[:, 3:6])
            else:
                c.fails.append(exc_failure("Ctransform.xyz2geometry", geo))
        else:
            c.fails.append(exc_failure("Ctransform.sf2xyz", xyz_c))
        ok, g = guard(ct.sf2gv, sc, fc, om, *t)
        if ok:
            c.g("Ctransform.sf2gv", g)
        else:
            c.fails.append(exc_failure("Ctransform.sf2gv", g))
    # ---- (ii) raw kernels with garbage-prefilled outputs
    xyz_in = np.ascontiguousarray(ref["xyz"].T)
    out = np.full((len(sc), 3), 7.7)
    ok, e = guard(cImageD11.compute_gv, xyz_in, om, p["omegasign"], p["wavelength"], p["wedge"], p["chi"],
                  np.array(t), out)
    if ok:
        c.g("cImageD11.compute_gv", out)
    else:
        c.fails.append(exc_failure("cImageD11.compute_gv", e))
    out6 = np.full((len(sc), 6), -3.3)
    ok, e = guard(cImageD11.compute_geometry, xyz_in, om, p["omegasign"], p["wavelength"], p["wedge"], p["chi"],
                  np.array(t), out6)
    if ok:
        c.angles("cImageD11.compute_geometry", out6[:, 0], out6[:, 1])
        c.ds("cImageD11.compute_geometry", out6[:, 2])
        c.g("cImageD11.compute_geometry", out6[:, 3:6])
    else:
        c.fails.append(exc_failure("cImageD11.compute_geometry", e))
    rmat = (O.geo_detector_rotation(p) @ np.array([[1, 0, 0], [0, p["o22"], p["o21"]], [0, p["o12"], p["o11"]]])).ravel()
    outx = np.full((len(sc), 3), 1e9)
    ok, e = guard(cImageD11.compute_xlylzl, sc, fc, np.array([p["z_center"], p["y_center"], p["z_size"], p["y_size"]]),
                  rmat, np.array([p["distance"], 0., 0.]), outx)
    if ok:
        c.xyz("cImageD11.compute_xlylzl", outx)
    else:
        c.fails.append(exc_failure("cImageD11.compute_xlylzl", e))
    # ---- (iii) columnfile fast and slow, translation from parameters or explicit
    for fast in (True, False):
        for explicit in (False, True):
            cf = columnfile.colfile_from_dict({"sc": sc.copy(), "fc": fc.copy(), "omega": om.copy()})
            pp = dict(pk)
            tr = None
            if explicit:
                pp["t_x"], pp["t_y"], pp["t_z"] = 11.0, -22.0, 33.0      # must be ignored
                tr = list(t)
            route = "columnfile.updateGeometry(fast=%s,translation=%s)" % (fast, "arg" if explicit else "pars")
            ok, e = guard(cf.updateGeometry, parameters.parameters(**pp), tr, fast)
            if not ok:
                c.fails.append(exc_failure(route, e))
                continue
            missing = [n for n in ("xl", "yl", "zl", "tth", "eta", "ds", "gx", "gy", "gz") if n not in cf.titles]
            if missing:
                c.fails.append(fail("columns", "%s: missing columns %s" % (route, missing), route=route))
                continue
            c.xyz(route, np.array([cf.xl, cf.yl, cf.zl]).T)
            c.angles(route, cf.tth, cf.eta)
            c.ds(route, cf.ds)
            c.g(route, np.array([cf.gx, cf.gy, cf.gz]).T)
            if not np.array_equal(cf.sc, sc) or not np.array_equal(cf.omega, om):
                c.fails.append(fail("inputs", "%s modified its input columns" % route, route=route))
            cf2 = columnfile.colfile_from_dict({"sc": sc.copy(), "fc": fc.copy(), "omega": om.copy()})
            route = "columnfile.updateGV(fast=%s,translation=%s)" % (fast, "arg" if explicit else "pars")
            ok, e = guard(cf2.updateGV, parameters.parameters(**pp), tr, fast)
            if not ok:
                c.fails.append(exc_failure(route, e))
            else:
                c.g(route, np.array([cf2.gx, cf2.gy, cf2.gz]).T)
    # ---- (iii-b) history on one columnfile: update, edit the parameters in place, update again
    #      (another parameter set from the lattice is used first, so every column exists and is stale)
    pA, _, _, _ = params_from((index * 7 + 13) % 16384, mseed + 1)
    for fast in (True, False):
        for style in ("inplace+translation", "inplace", "setparameters"):
            cf = columnfile.colfile_from_dict({"sc": sc.copy(), "fc": fc.copy(), "omega": om.copy()})
            route = "columnfile history (fast=%s, %s)" % (fast, style)
            ok, e = guard(cf.updateGeometry, parameters.parameters(**pA), None, not fast)
            if not ok:
                c.fails.append(exc_failure(route, e))
                continue
            if style == "setparameters":
                ok, e = guard(cf.setparameters, parameters.parameters(**pk))
                tr = None
            else:
                for k_, v_ in pk.items():
                    cf.parameters.set(k_, v_)
                tr = list(t) if style == "inplace+translation" else None
                if tr is not None:
                    cf.parameters.set("t_x", 5.0)          # must be ignored when a translation is passed
            ok, e = guard(cf.updateGeometry, None, tr, fast)
            if not ok:
                c.fails.append(exc_failure(route, e))
                continue
            c.xyz(route, np.array([cf.xl, cf.yl, cf.zl]).T)
            c.angles(route, cf.tth, cf.eta)
            c.ds(route, cf.ds)
            c.g(route, np.array([cf.gx, cf.gy, cf.gz]).T)
    # ---- (iii-c) a Ctransform object re-targeted to other parameters: pars updated, reset() called
    ok, ct2 = guard(transform.Ctransform, pA)
    if ok:
        for k_ in ct2.pnames:
            ct2.pars[k_] = pk[k_]
        ok, e = guard(ct2.reset)
        if ok:
            ok, g2 = guard(ct2.sf2gv, sc, fc, om, *t)
            if ok:
                c.g("Ctransform after pars update + reset()", g2)
            else:
                c.fails.append(exc_failure("Ctransform.sf2gv after reset", g2))
        else:
            c.fails.append(exc_failure("Ctransform.reset", e))
    # ---- (iv) numba copy (no omegasign: compared on the omega it is given; xpos folded into distance)
    if sc.dtype.kind == "i":
        if rec is not None:
            rec.exclude("numba copy not called with integer arrays (numba refuses them with a TypingError)")
        sc, fc, om = sc.astype(float), fc.astype(float), om.astype(float)
    p1 = dict(p, omegasign=1.0)
    xpos = np.full(len(sc), 0.0) if index % 2 else np.linspace(-300, 300, len(sc))
    refn = None
    if not xpos.any():
        refn = O.geo_forward(sc, fc, om, p1, t)
    args = (p["distance"], p["y_center"], p["y_size"], p["tilt_y"], p["z_center"], p["z_size"], p["tilt_z"],
            p["tilt_x"], p["o11"], p["o12"], p["o21"], p["o22"], p["t_x"], p["t_y"], p["t_z"], p["wedge"], p["chi"],
            p["wavelength"])
    ok, g = guard(pbp.compute_gve, sc.copy(), fc.copy(), om.copy(), xpos, *args)
    if ok:
        if refn is None:
            # per-peak distance: reference evaluated peak by peak
            cols = []
            for i in range(len(sc)):
                pi = dict(p1, distance=p["distance"] - xpos[i])
                cols.append(O.geo_forward(sc[i:i + 1], fc[i:i + 1], om[i:i + 1], pi, t)["g"][:, 0])
            c.g("point_by_point.compute_gve", np.asarray(g).T, np.array(cols).T)
        else:
            c.g("point_by_point.compute_gve", np.asarray(g).T, refn["g"])
    else:
        c.fails.append(exc_failure("point_by_point.compute_gve", g))
    if refn is None:
        refn = O.geo_forward(sc, fc, om, p1, t)
    ok, x = guard(pbp.compute_xyz_lab, sc.copy(), fc.copy(), p["y_center"], p["y_size"], p["tilt_y"], p["z_center"],
                  p["z_size"], p["tilt_z"], p["tilt_x"], p["distance"], p["o11"], p["o12"], p["o21"], p["o22"])
    if ok:
        c.xyz("point_by_point.compute_xyz_lab", np.asarray(x).T)
        ok, r = guard(pbp.compute_tth_eta_from_xyz, np.asarray(x), om.copy(), p["t_x"], p["t_y"], p["t_z"],
                      p["wedge"], p["chi"])
        if ok:
            c.angles("point_by_point.compute_tth_eta_from_xyz", r[0], r[1], refn)
        else:
            c.fails.append(exc_failure("point_by_point.compute_tth_eta_from_xyz", r))
    else:
        c.fails.append(exc_failure("point_by_point.compute_xyz_lab", x))
    ok, r = guard(pbp.compute_g_vectors, refn["tth"], refn["eta"], om.copy(), p["wavelength"], p["wedge"], p["chi"])
    if ok:
        c.g("point_by_point.compute_g_vectors", np.asarray(r).T, refn["g"])
    else:
        c.fails.append(exc_failure("point_by_point.compute_g_vectors", r))
    ok, r = guard(pbp.compute_grain_origins, om.copy(), p["wedge"], p["chi"], p["t_x"], p["t_y"], p["t_z"])
    if ok:
        e = np.abs(np.asarray(r) - O.geo_grain_origins(om, p, t)).max()
        if e > c.xt:
            c.add("origin", "point_by_point.compute_grain_origins", "grain origin", e, c.xt)
    else:
        c.fails.append(exc_failure("point_by_point.compute_grain_origins", r))
    ok, r = guard(pbp.detector_rotation_matrix, p["tilt_x"], p["tilt_y"], p["tilt_z"])
    if ok:
        if np.abs(np.asarray(r) - O.geo_detector_rotation(p)).max() > 1e-14:
            c.add("tiltmatrix", "point_by_point.detector_rotation_matrix", "matrix", 1, 1e-14)
    else:
        c.fails.append(exc_failure("point_by_point.detector_rotation_matrix", r))
    # ---- (vi) get_local_gv: origin shifted along x by the voxel position
    from ImageD11.sinograms import geometry
    pbp.parglobal = parameters.parameters(**pk)
    si, sj, ystep = 3.0 - (index % 7), 2.0 + (index % 5), 5.0
    omr = np.radians(om)
    ok, r = guard(pbp.get_local_gv, si, sj, ystep, om, np.sin(omr), np.cos(omr), ref["xyz"][0].copy(),
                  ref["xyz"][1].copy(), ref["xyz"][2].copy())
    if ok:
        sx, sy = geometry.step_to_sample(si, sj, ystep)
        xoff = sx * np.cos(omr) - sy * np.sin(omr)
        xyzl = ref["xyz"].copy()
        xyzl[0] -= xoff
        tth, eta = O.geo_tth_eta(xyzl)
        gl = O.geo_g_from_k(O.geo_k(tth, eta, p["wavelength"]), ome, p)
        c.g("point_by_point.get_local_gv", r[0], gl)
    else:
        c.fails.append(exc_failure("point_by_point.get_local_gv", r))
    # ---- (viii) refinegrains: g-vectors for a grain's own origin, on one object across in-place parameter edits
    if index % 4 == mseed % 4:
        c.fails += refinegrains_route(p, sc, fc, om, t, index, mseed, rec)
    # ---- (vii) PixelLUT: per-pixel table of a small image (no translation, omega not used)
    if index % 8 == mseed % 8:
        shp = (5 + index % 4, 6 + index % 3)
        ok, lut = guard(transform.PixelLUT, dict(pk, shape=shp))
        if ok:
            ss, ff = np.mgrid[0:shp[0], 0:shp[1]]
            p0 = dict(p, t_x=0.0, t_y=0.0, t_z=0.0)
            rl = O.geo_forward(ss.ravel().astype(float), ff.ravel().astype(float), np.zeros(ss.size), p0, (0, 0, 0))
            cl = Cmp(p, rl)
            cl.xyz("PixelLUT.xyz", np.asarray(lut.xyz).reshape(3, -1).T)
            cl.angles("PixelLUT.tth/eta", np.asarray(lut.tth).ravel(), np.asarray(lut.eta).ravel())
            e = np.abs(np.asarray(lut.k).reshape(3, -1) - rl["k"]).max()
            if e > cl.gt:
                cl.add("kvector", "PixelLUT.k", "k", e, cl.gt)
            e = np.abs(np.asarray(lut.sinthsq).ravel() - np.sin(np.radians(rl["tth"]) / 2) ** 2).max()
            if e > 1e-13:
                cl.add("sinthsq", "PixelLUT.sinthsq", "sin^2(theta)", e, 1e-13)
            c.fails += cl.fails
        else:
            c.fails.append(exc_failure("PixelLUT", lut))
    # ---- none of the routes may have written into the arrays or the parameter dictionary it was given
    for nm, a, b in zip(("sc", "fc", "omega"), given[:3], snapshot):
        if not np.array_equal(a, b):
            c.fails.append(fail("inputs", "one of the routes modified the %s array it was given" % nm, what="inputs"))
    if given[3] != p or pk != p:
        c.fails.append(fail("inputs", "one of the routes modified the parameter dictionary it was given", what="inputs"))
    if rec is not None:
        cls = ["omegasign-1"] if (index >> 8) & 1 else []
        if ((index >> 11) & 7) >= 4:
            cls.append("offdiag_flip")
        if (index >> 9) & 3:
            cls.append("neg_pixel")
        if index % 16 == (mseed + 3) % 16:
            cls.append("integer_columns")
        rec.case(case, bool(nontrivial(index)), cls, key=index * 1000003 + mseed)
    return c.fails


def run_shard(rec):
    quick = rec.tier == "quick"
    reps = 1 if quick else 4
    todo = [dict(index=i, mseed=rec.seed * 10 + r) for r in range(reps) for i in range(16384)
            if i % rec.nshards == rec.shard]
    run_cases(rec, "lattice", todo, lambda c: check(c, rec))
    rec.note("switch_lattice_enumerated", reps, "max")
    hyp_run(rec, "random", st.builds(lambda i, m: dict(index=i, mseed=m), st.integers(0, 16383),
                                     st.integers(0, 2 ** 20)),
            lambda c: check(c, rec), max_examples=200 if quick else 3000)


def replay(sub, case, rec):
    return check(case, rec)
