"""C04 - UBI, UB, U, B, metric tensors, cell parameters and Rodrigues vector agree."""
import numpy as np
from hypothesis import strategies as st
from vf import gens
from vf.runner import hyp_run, run_cases, guard, fail, exc_failure

THOROUGH_SCALE = 8      # multiplies every generated-case budget of the thorough tier
RULE = ("cell (7 families incl. triclinic, constructed positive volume) x rotation (uniform quaternion, identity, "
        "axis-aligned, small angle) x symmetric strain of magnitude 0 / 1e-4 / 1e-2 -> UBI = inv(U.(I+eps).B0); "
        "oracle = QR decomposition (U', B') of inv(UBI) and Gram matrices computed in the harness, B0 = upper "
        "Cholesky factor of the reciprocal metric; map cases: shapes (1..3,1..5,1..5) with random all-NaN voxels; "
        "non-trivial = at least one non-right angle AND a non-identity rotation (maps: additionally a NaN voxel "
        "next to a valid one); distinct = hash of the case parameters")
ASSUMPTIONS = ["numpy.linalg (qr, inv, cholesky) is correct",
               "Rodrigues vectors are compared only when the rotation angle is < 179.9 deg (undefined at 180)",
               "relative tolerance 1e-9 (1e-7 deg on angles): conditioning of arccos for angles in [55,125] deg"]
WARMUP = ["ImageD11.sinograms.tensor_map", "ImageD11.sinograms.point_by_point"]

RTOL = 1e-9


def shard_layout(tier):
    return [("opt", None)] * (8 if tier == "quick" else 16)


def warmup():
    from ImageD11.sinograms import point_by_point as pbp
    pbp.ubi_to_unitcell(np.eye(3))
    pbp.ubi_and_ucell_to_u(np.eye(3), np.array([1., 1, 1, 90, 90, 90]))


@st.composite
def grains(draw):
    fam, cell = draw(gens.cells(families=gens.FAMILIES + ("triclinic", "triclinic", "monoclinic", "pseudo", "pseudo")))
    U = draw(gens.rotations())
    mag = draw(st.sampled_from([0.0, 0.0, 1e-4, 1e-2]))
    sseed = draw(st.integers(0, 2 ** 31 - 1))
    return dict(family=fam, cell=[float(x) for x in cell], U=U, strain=mag, sseed=sseed)


@st.composite
def mapcases(draw):
    nz = draw(st.integers(1, 3))
    ny = draw(st.integers(1, 5))
    nx = draw(st.integers(1, 5))
    g = [draw(grains()) for _ in range(draw(st.integers(1, 3)))]
    mseed = draw(st.integers(0, 2 ** 31 - 1))
    nanfrac = draw(st.sampled_from([0.0, 0.2, 0.5, 0.9]))
    return dict(shape=(nz, ny, nx), grains=g, mseed=mseed, nanfrac=nanfrac)


def truth(g):
    """UBI and the expected decomposition, all from harness-side linear algebra."""
    B0 = gens.busing_levy_B(g["cell"])
    U = np.asarray(g["U"], float)
    if g["strain"] == 0:
        UB = U @ B0
        return np.linalg.inv(UB), UB, U, B0, np.array(g["cell"], float)
    rng = np.random.RandomState(g["sseed"] % (2 ** 32))
    e = rng.uniform(-1, 1, (3, 3)) * g["strain"]
    e = 0.5 * (e + e.T)
    UB = U @ (np.eye(3) + e) @ B0
    Q, R = np.linalg.qr(UB)
    s = np.sign(np.diag(R))
    Q, R = Q * s, (R.T * s).T        # positive diagonal; Q R unchanged
    if np.linalg.det(Q) < 0:         # cannot happen for det(UB) > 0 with positive diag R
        raise RuntimeError("harness: improper QR")
    Gs = R.T @ R
    G = np.linalg.inv(Gs)
    a, b, c = np.sqrt(np.diag(G))
    cell = np.array([a, b, c, np.degrees(np.arccos(G[1, 2] / b / c)),
                     np.degrees(np.arccos(G[0, 2] / a / c)), np.degrees(np.arccos(G[0, 1] / a / b))])
    return np.linalg.inv(UB), UB, Q, R, cell


def rod_of(U):
    """Rodrigues vector n.tan(theta/2) in the convention ImageD11 takes from xfab (U maps crystal to
    sample; the vector is that of the inverse rotation U^T): (U12-U21, U20-U02, U01-U10)/(1+tr)."""
    tr = np.trace(U)
    return np.array([U[1, 2] - U[2, 1], U[2, 0] - U[0, 2], U[0, 1] - U[1, 0]]) / (1 + tr)


def close(a, b, scale=None, tol=RTOL):
    a = np.asarray(a, float)
    b = np.asarray(b, float)
    if a.shape != b.shape:
        return False
    s = np.abs(b).max() if scale is None else scale
    return bool(np.all(np.abs(a - b) <= tol * max(s, 1e-300)))


def cell_close(a, b):
    a = np.asarray(a, float)
    b = np.asarray(b, float)
    return a.shape == (6,) and close(a[:3], b[:3]) and bool(np.all(np.abs(a[3:] - b[3:]) < 1e-7))


def check_grain(g, rec=None):
    from ImageD11 import grain as grainmod, indexing, unitcell
    from ImageD11.sinograms import point_by_point as pbp, tensor_map as tm
    ubi, UB, U, B, cell = truth(g)
    fails = []

    def cmp(name, got, exp, kind="mat"):
        ok = cell_close(got, exp) if kind == "cell" else close(got, exp)
        if not ok:
            fails.append(fail("mismatch", "%s = %s, expected %s" % (
                name, np.array2string(np.asarray(got), precision=10),
                np.array2string(np.asarray(exp), precision=10)), route=name))

    # the same matrix handed over as a C-ordered array, a Fortran-ordered array, a transposed view or nested lists
    rep = int(abs(ubi[0, 0]) * 1e6) % 4
    ubi_in = [ubi, np.asfortranarray(ubi), ubi.T.copy().T, [list(map(float, r)) for r in ubi]][rep]
    ok, gr = guard(grainmod.grain, ubi_in)
    if not ok:
        return [exc_failure("grain()", gr)]
    if rep in (1, 2):
        ubi = ubi_in          # the free functions below see the same representation
    ubi_before = np.array(ubi, copy=True)
    G = ubi @ ubi.T
    angle = np.degrees(np.arccos(np.clip((np.trace(U) - 1) / 2, -1, 1)))
    routes = [
        ("grain.UB", lambda: gr.UB, UB, "mat"), ("grain.ub", lambda: gr.ub, UB, "mat"),
        ("grain.U", lambda: gr.U, U, "mat"), ("grain.u", lambda: gr.u, U, "mat"),
        ("grain.B", lambda: gr.B, B, "mat"),
        ("grain.unitcell", lambda: gr.unitcell, cell, "cell"),
        ("grain.mt", lambda: gr.mt, G, "mat"), ("grain.rmt", lambda: gr.rmt, np.linalg.inv(G), "mat"),
        ("indexing.ubitocellpars", lambda: np.array(indexing.ubitocellpars(ubi)), cell, "cell"),
        ("indexing.ubitoU", lambda: indexing.ubitoU(ubi), U, "mat"),
        ("indexing.ubitoB", lambda: indexing.ubitoB(ubi), B, "mat"),
        ("unitcell(cell).B", lambda: unitcell.unitcell(cell, "P").B, B, "mat"),
        ("unitcell(cell).g", lambda: unitcell.unitcell(cell, "P").g, G, "mat"),
        ("unitcell(cell).gi", lambda: unitcell.unitcell(cell, "P").gi, np.linalg.inv(G), "mat"),
        ("pbp.ubi_to_unitcell", lambda: pbp.ubi_to_unitcell(ubi), cell, "cell"),
        ("pbp.ubi_and_ucell_to_u", lambda: pbp.ubi_and_ucell_to_u(ubi, cell), U, "mat"),
        ("tm.fast_invert", lambda: tm.fast_invert(ubi), UB, "mat"),
        ("tm.ubi_to_mt", lambda: tm.ubi_to_mt(ubi), G, "mat"),
        ("tm.mt_to_unitcell", lambda: tm.mt_to_unitcell(G, np.arange(6)), cell, "cell"),
        ("tm.unitcell_to_b", lambda: tm.unitcell_to_b(cell, np.eye(3)), B, "mat"),
        ("tm.ubi_and_b_to_u", lambda: tm.ubi_and_b_to_u(ubi, B), U, "mat"),
    ]
    if angle < 179.9:
        routes += [("grain.Rod", lambda: gr.Rod, rod_of(U), "mat"),
                   ("indexing.ubitoRod", lambda: indexing.ubitoRod(ubi), rod_of(U), "mat")]
    elif rec is not None:
        rec.exclude("Rodrigues vector at rotation angle >= 179.9 deg")
    for name, fn, exp, kind in routes:
        ok, got = guard(fn)
        if not ok:
            fails.append(exc_failure(name, got))
            continue
        if name.endswith("Rod"):
            if not close(got, exp, scale=max(1.0, np.abs(exp).max()), tol=1e-7 * max(1, np.abs(exp).max())):
                fails.append(fail("mismatch", "%s = %s expected %s" % (name, got, exp), route=name))
        else:
            cmp(name, got, exp, kind)
    # structural laws on what the library returned
    ok, Ug = guard(lambda: gr.U)
    ok2, Bg = guard(lambda: gr.B)
    if ok and ok2:
        if not close(Ug @ Ug.T, np.eye(3), scale=1.0) or abs(np.linalg.det(Ug) - 1) > 1e-9:
            fails.append(fail("law", "grain.U is not a proper rotation", route="grain.U"))
        if abs(Bg[1, 0]) + abs(Bg[2, 0]) + abs(Bg[2, 1]) > 0 or (np.diag(Bg) <= 0).any():
            fails.append(fail("law", "grain.B is not upper triangular with positive diagonal",
                              route="grain.B"))
        if not close(Ug @ Bg @ ubi, np.eye(3), scale=1.0, tol=1e-8):
            fails.append(fail("law", "U.B.UBI != identity", route="grain"))
        if not close(Bg.T @ Bg, np.linalg.inv(G)):
            fails.append(fail("law", "B^T.B != reciprocal metric tensor", route="grain.B"))
    # cache: set_ubi must clear everything
    other = np.linalg.inv(gens.rotation_from_seed(g["sseed"] + 5) @ gens.busing_levy_B([3, 4, 5, 80, 95, 100]))
    ok, g2 = guard(grainmod.grain, other)
    if ok:
        _ = (g2.U, g2.B, g2.UB, g2.unitcell, g2.mt, g2.rmt, g2.Rod)
        g2.set_ubi(ubi)
        for name, exp, kind in (("UB", UB, "mat"), ("U", U, "mat"), ("B", B, "mat"),
                                ("unitcell", cell, "cell"), ("mt", G, "mat")):
            got = getattr(g2, name)
            if not (cell_close(got, exp) if kind == "cell" else close(got, exp)):
                fails.append(fail("cache", "grain.%s stale after set_ubi" % name, route="grain.set_ubi"))
    if not np.array_equal(np.asarray(ubi), ubi_before):
        fails.append(fail("inputs", "one of the routes modified the UBI matrix it was given", route="inputs"))
    # a grain owns its matrix: the caller's array (a work buffer, a row of a table of UBIs) may be overwritten later
    src = np.array(ubi_before, float)
    ok, g3 = guard(grainmod.grain, src)
    if ok:
        _ = (g3.UB, g3.U, g3.B, g3.unitcell, g3.mt)
        src *= 1.37
        src[0, 1] += 0.25
        if not np.array_equal(np.asarray(g3.ubi), ubi_before) or not close(g3.UB @ np.asarray(g3.ubi), np.eye(3)):
            fails.append(fail("alias", "a grain built from an array changes when the caller later writes into that "
                              "array (ubi and the cached UB/U/B no longer belong together)", route="grain(ndarray)"))
        src2 = np.array(ubi_before, float)
        g3.set_ubi(src2)
        src2 *= 0.5
        if not np.array_equal(np.asarray(g3.ubi), ubi_before):
            fails.append(fail("alias", "grain.set_ubi keeps a reference to the caller's array", route="set_ubi(ndarray)"))
    # a grain that carries a reference cell for strain work (ref_unitcell): its own matrices still describe its own cell
    ok, g5 = guard(grainmod.grain, np.array(ubi_before, float))
    if ok:
        from ImageD11 import unitcell as ucm
        rc_ = [x * 1.003 for x in cell[:3]] + list(cell[3:])
        g5.ref_unitcell = ucm.unitcell(rc_, "P")
        ok, mats = guard(lambda: (np.asarray(g5.B, float), np.asarray(g5.U, float), np.asarray(g5.UB, float)))
        if not ok:
            fails.append(exc_failure("grain.B/U/UB with ref_unitcell set", mats))
        else:
            B5, U5, UB5 = mats
            e_ = max(np.abs(U5 @ B5 @ ubi_before - np.eye(3)).max(), np.abs(U5 @ U5.T - np.eye(3)).max(),
                     np.abs(UB5 @ ubi_before - np.eye(3)).max())
            if e_ > 1e-9:
                fails.append(fail("law", "grain with a reference cell attached (0.3 %% larger): U.B.ubi, U.U^T or UB.ubi "
                                  "differ from identity by %.3g" % e_, route="grain.ref_unitcell"))
    # the last cycles of a refinement: updates of parts per million (and of parts in 1e9) through set_ubi after the
    # derived matrices were read; what is read afterwards belongs to the new matrix
    ok, g4 = guard(grainmod.grain, np.array(ubi_before, float))
    if ok:
        cur = np.array(ubi_before, float)
        for step, eps in enumerate((3e-6, 1e-7, 2e-9)):
            _ = (g4.UB, g4.U, g4.B, g4.unitcell, g4.mt, g4.rmt)
            D = np.array([[1.0, 0.3, -0.2], [-0.25, 0.7, 0.1], [0.15, -0.1, -0.6]]) * eps
            cur = (np.eye(3) + D) @ cur
            g4.set_ubi(cur.copy())
            e1 = np.abs(np.asarray(g4.UB) @ cur - np.eye(3)).max()
            e2 = np.abs(np.asarray(g4.U) @ np.asarray(g4.B) @ cur - np.eye(3)).max()
            e3 = np.abs(np.asarray(g4.mt) - cur @ cur.T).max() / np.abs(cur @ cur.T).max()
            if max(e1, e2, e3) > 1e-10:
                fails.append(fail("cache", "after set_ubi with an update of %g (step %d of a refinement history) "
                                  "UB.ubi, U.B.ubi differ from identity by %.3g, %.3g and mt from ubi.ubi^T by %.3g"
                                  % (eps, step, e1, e2, e3), route="grain.set_ubi(small update)"))
                break
    if rec is not None:
        oblique = any(abs(x - 90) > 1e-9 for x in g["cell"][3:])
        nt = oblique and not np.allclose(U, np.eye(3))
        rec.case(dict(g, U=np.asarray(g["U"])), nt, ["family:" + g["family"], "strain:%g" % g["strain"]])
    return fails


def check_map(case, rec=None):
    from ImageD11.sinograms import tensor_map as tm
    fails = []
    shape = tuple(case["shape"])
    rng = np.random.RandomState(case["mseed"] % (2 ** 32))
    T = [truth(g) for g in case["grains"]]
    which = rng.randint(0, len(T), shape)
    nan = rng.random_sample(shape) < case["nanfrac"]
    ubi = np.empty(shape + (3, 3))
    for idx in np.ndindex(*shape):
        ubi[idx] = T[which[idx]][0]
    full = ubi.copy()
    ubi[nan] = np.nan
    outs = {}
    for label, arr in (("masked", ubi), ("full", full)):
        ok, m = guard(tm.TensorMap, {"UBI": arr.copy(), "phase_ids": np.zeros(shape, int)})
        if not ok:
            return [exc_failure("TensorMap()", m)]
        res = {}
        # the order in which the derived maps are first asked for must not matter (each may be built from the others
        # once they are cached)
        order = ("UB", "mt", "unitcell", "B", "U") if case["mseed"] % 2 else ("U", "B", "unitcell", "mt", "UB")
        for name in order:
            ok, v = guard(lambda: getattr(m, name))
            if not ok:
                fails.append(exc_failure("TensorMap.%s" % name, v))
                continue
            res[name] = np.array(v)
        outs[label] = res
    for name, v in outs["masked"].items():
        if v.shape[:3] != shape:
            fails.append(fail("mapshape", "TensorMap.%s has shape %s" % (name, v.shape), route=name))
            continue
        if not np.isnan(v[nan]).all():
            fails.append(fail("nan", "TensorMap.%s: masked voxels are not all NaN" % name, route=name))
        if np.isnan(v[~nan]).any():
            fails.append(fail("nan", "TensorMap.%s: NaN leaked into valid voxels" % name, route=name))
        vf = outs["full"].get(name)
        if vf is not None and not np.array_equal(v[~nan], vf[~nan]):
            fails.append(fail("maskdep", "TensorMap.%s: valid voxels change when other voxels are masked"
                              % name, route=name))
        for idx in np.ndindex(*shape):
            if nan[idx]:
                continue
            _, UB, U, B, cell = T[which[idx]]
            exp = dict(UB=UB, U=U, B=B, unitcell=cell, mt=np.linalg.inv(B.T @ B))[name]
            good = cell_close(v[idx], exp) if name == "unitcell" else close(v[idx], exp)
            if not good:
                fails.append(fail("mismatch", "TensorMap.%s at voxel %s = %s expected %s" % (
                    name, idx, v[idx].ravel(), np.asarray(exp).ravel()), route="TensorMap." + name))
                break
    # ---- history on one map: derived maps read, then the UBI map replaced (three documented ways); every derived
    #      map must then describe the new UBIs
    if not fails:
        perm = rng.permutation(len(T))
        which2 = perm[which] if len(T) > 1 else which
        nan2 = np.roll(nan, 1, axis=2)
        ubi2 = np.empty(shape + (3, 3))
        for idx in np.ndindex(*shape):
            ubi2[idx] = T[which2[idx]][0] * (1.0 + 1e-3)            # also another cell: 0.1 % larger
        ubi2[nan2] = np.nan
        ok, m = guard(tm.TensorMap, {"UBI": ubi.copy(), "phase_ids": np.zeros(shape, int)})
        if ok:
            for name in ("UB", "mt", "unitcell", "B", "U"):
                guard(lambda: getattr(m, name))
            how = case["mseed"] % 3
            try:
                if how == 0:
                    m.UBI = ubi2.copy()
                elif how == 1:
                    m["UBI"] = ubi2.copy()
                else:
                    m.add_map("UBI", ubi2.copy())
            except Exception as e:
                fails.append(exc_failure("TensorMap: replacing the UBI map", e))
            else:
                for name in ("UB", "mt", "unitcell", "B", "U"):
                    ok, v = guard(lambda: getattr(m, name))
                    if not ok:
                        fails.append(exc_failure("TensorMap.%s after replacing UBI" % name, v))
                        break
                    v = np.asarray(v)
                    bad = None
                    if not np.isnan(v[nan2]).all() or np.isnan(v[~nan2]).any():
                        bad = "NaN mask is not that of the new UBI map"
                    else:
                        for idx in np.ndindex(*shape):
                            if nan2[idx]:
                                continue
                            _, UB, U, B, cell = T[which2[idx]]
                            k = 1.0 + 1e-3
                            exp = dict(UB=UB / k, U=U, B=B / k, unitcell=np.r_[np.asarray(cell[:3]) * k, cell[3:]],
                                       mt=np.linalg.inv(B.T @ B) * k * k)[name]
                            good = cell_close(v[idx], exp) if name == "unitcell" else close(v[idx], exp)
                            if not good:
                                bad = "voxel %s still describes the old UBI" % (idx,)
                                break
                    if bad:
                        fails.append(fail("cache", "TensorMap.%s after the UBI map was replaced (%s): %s" %
                                          (name, ["attribute", "item", "add_map"][how], bad), route="TensorMap.cache"))
                        break
    # ---- layers stacked along z (from_stack): derived maps had been read on some of the layers only (one slice was
    #      inspected before the volume was assembled); the stack's derived maps must describe the stacked UBIs
    if not fails and shape[0] >= 2:
        layers = []
        for z in range(shape[0]):
            ok, m = guard(tm.TensorMap, {"UBI": ubi[z:z + 1].copy(), "phase_ids": np.zeros((1,) + shape[1:], int)})
            if not ok:
                fails.append(exc_failure("TensorMap()", m))
                break
            if (z + case["mseed"]) % 2 == 0:
                for name in (("U", "unitcell") if case["mseed"] % 3 else ("UB", "mt", "B")):
                    guard(lambda: getattr(m, name))
            layers.append(m)
        else:
            ok, st_ = guard(tm.TensorMap.from_stack, layers)
            if not ok:
                fails.append(exc_failure("TensorMap.from_stack", st_))
            else:
                for name in ("UB", "mt", "unitcell", "B", "U"):
                    ok, v = guard(lambda: getattr(st_, name))
                    if not ok:
                        fails.append(exc_failure("TensorMap.%s of a stack" % name, v))
                        break
                    v = np.asarray(v)
                    ref = outs["masked"].get(name)
                    if ref is None:
                        continue
                    if v.shape != ref.shape or not np.array_equal(np.isnan(v), np.isnan(ref)) or \
                            not np.allclose(v[~np.isnan(ref)], ref[~np.isnan(ref)], rtol=1e-9, atol=1e-12):
                        fails.append(fail("cache", "TensorMap.from_stack of %d layers, derived maps read on every "
                                          "second layer beforehand: %s of the stack differs from %s of one map holding "
                                          "the same UBIs" % (shape[0], name, name), route="TensorMap.from_stack"))
                        break
    if rec is not None:
        # a NaN voxel adjacent (6-neighbourhood) to a valid voxel
        adj = False
        for ax in range(3):
            a = np.swapaxes(nan, 0, ax)
            if a.shape[0] > 1 and (a[1:] != a[:-1]).any():
                adj = True
        ob = any(any(abs(x - 90) > 1e-9 for x in g["cell"][3:]) for g in case["grains"])
        c = dict(case, grains=[dict(g, U=np.asarray(g["U"])) for g in case["grains"]])
        rec.case(c, adj and ob, ["map", "nanfrac:%g" % case["nanfrac"]] + (["map_nan_adjacent"] if adj else []))
    return fails


REGRESSION = [dict(family="hexagonal", cell=[3., 3., 5., 90., 90., 120.], U=np.eye(3), strain=0.0, sseed=0)]


def run_shard(rec):
    quick = rec.tier == "quick"
    if rec.shard == 0:
        run_cases(rec, "grain", REGRESSION, lambda c: check_grain(c, rec))
    hyp_run(rec, "grain", grains(), lambda c: check_grain(c, rec), max_examples=400 if quick else 3000)
    hyp_run(rec, "map", mapcases(), lambda c: check_map(c, rec), max_examples=60 if quick else 500)


def replay(sub, case, rec):
    if sub == "map":
        return check_map(case, rec)
    return check_grain(case, rec)
