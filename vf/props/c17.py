"""C17 - columnfile stays rectangular and self-consistent under any operation sequence.

Stateful model-based test.  `Harness` applies one operation (name + explicit arguments) to the
real columnfile and to a dictionary model; Hypothesis' RuleBasedStateMachine draws the arguments,
the exhaustive tier enumerates sequences over a fixed alphabet, and a replay re-applies a stored
history without Hypothesis."""
import os, itertools
import numpy as np
from hypothesis import strategies as st
from hypothesis.stateful import RuleBasedStateMachine, rule, initialize, precondition
from vf.runner import (hyp_stateful, hyp_run, run_cases, fail, exc_failure, Violation, _in_code_under_test)

THOROUGH_SCALE = 3      # multiplies every generated-case budget of the thorough tier
RULE = ("histories of 1..30 operations drawn by a Hypothesis state machine from: addcolumn (new/existing), "
        "setcolumn, item and attribute assignment (scalar/array), in-place writes through the attribute, item "
        "and getcolumn views, filter, removerows (integer and tolerance), sortby, reorder, copy, copyrows "
        "(mask/index/slice), get_bigarray, set_bigarray (list and 2-D array), writefile+readfile, wrong-length "
        "rejections (column, mask, ragged table), mutation of earlier copies; six initial states (empty+addcolumn, dict-built, dict of strided views of one table, dict of int64 columns written with integer-valued floats, text-file "
        "loaded, HDF loaded); plus exhaustive enumeration of all sequences to depth 3 (quick) / 4 (thorough) "
        "over a fixed 14-operation alphabet from each initial state; sub-check typed: one sortby / removerows (integer, tolerance) on tables whose columns are float64/float32/int64/int32/uint8/uint16/uint32/uint64/bool with values near 0, 40 000 and 1e6 a quarter apart (non-trivial there = rows moved or some, not all, removed); arrays handed in are contiguous or strided views; oracle = ordered-dict model + aliasing "
        "probe + storage-independence of copies; non-trivial history = contains get_bigarray/set_bigarray "
        "followed by a mutator, or a copy followed by a mutation of the source; distinct = hash of the "
        "history")
ASSUMPTIONS = ["columns are assigned as numpy arrays or scalars (the statement's domain: 'scalar or array')",
               "sortby is checked as 'sort column ascending and the same permutation applied to every column' "
               "(tie order is not prescribed)",
               "values are multiples of 0.5 so that the text round trip is exact"]
EXHAUSTIVE = "all operation sequences to depth 3 (quick) / 4 (thorough) over the fixed alphabet, 5 initial states"

NAMES = ["a", "b", "c", "d"]
MUTATORS = {"addcolumn", "setcolumn", "setitem_scalar", "setitem_array", "setattr_scalar", "setattr_array",
            "view_write", "filter", "removerows", "sortby", "reorder", "set_bigarray", "rewrite"}


def shard_layout(tier):
    return [("opt", None)] * (8 if tier == "quick" else 16)


class Harness(object):
    def __init__(self, init, tmpdir):
        """init = (kind, nrows, {title: values})"""
        from ImageD11 import columnfile
        self.cfm = columnfile
        self.tmp = tmpdir
        self.history = [("init", init)]
        self.copies = []
        kind, n, cols = init
        self.intmode = kind == "ints"
        cols = {k: [self._v(x) for x in v] for k, v in cols.items()}
        titles = list(cols)
        arrays = {t: np.array(cols[t], float) for t in titles}
        if kind == "ints":
            # integer typed columns (peak ids, labels, counts as an integer HDF column or a dict of int arrays gives
            # them); every value written later is integer valued, so in-place writes and replacements agree
            self.cf = columnfile.colfile_from_dict({t: arrays[t].astype(np.int64) for t in titles})
        elif kind == "dict":
            self.cf = columnfile.colfile_from_dict(arrays)
        elif kind == "views":
            # columns are strided views of one row-major (nrows x ncols) table
            tab = np.array([cols[t] for t in titles], float).T.copy().reshape(n, len(titles))
            self.cf = columnfile.colfile_from_dict({t: tab[:, j] for j, t in enumerate(titles)})
        elif kind == "empty":
            self.cf = columnfile.newcolumnfile([])
            self.cf.nrows = n
            for t in titles:
                self.cf.addcolumn(arrays[t], t)
        elif kind in ("text", "hdf"):
            src = columnfile.colfile_from_dict(arrays)
            fn = os.path.join(tmpdir, "c17_init.%s" % ("flt" if kind == "text" else "h5"))
            if os.path.exists(fn):
                os.remove(fn)
            if kind == "text":
                src.writefile(fn)
            else:
                columnfile.colfile_to_hdf(src, fn, name="peaks")
            self.cf = columnfile.columnfile(fn)
            os.remove(fn)
        else:
            raise ValueError(kind)
        self.n = n
        self.model = {t: list(cols[t]) for t in self.cf.titles}     # order follows the object
        if sorted(self.model) != sorted(titles):
            raise Violation("titles after construction")
        for t in titles:
            self.model[t] = list(cols[t])

    def _v(self, x):
        return float(round(float(x))) if getattr(self, "intmode", False) else float(x)

    # ------------------------------------------------------------------ operations
    def apply(self, op, args):
        self.history.append((op, args))
        return getattr(self, "op_" + op)(*args)

    def _arr(self, vals):
        """columns handed to the columnfile: contiguous arrays, or (every third operation) strided
        views of a larger buffer, as produced by slicing a 2-D table"""
        v = [self._v(x) for x in vals]
        if len(self.history) % 3 == 0 and len(v) > 0:
            buf = np.zeros((len(v), 3), float)
            buf[:, 1] = v
            return buf[:, 1]
        return np.array(v, float)

    def op_addcolumn(self, name, vals):
        self.cf.addcolumn(self._arr(vals), name)
        self.model[name] = [self._v(v) for v in vals]

    def op_setcolumn(self, name, vals):
        self.cf.setcolumn(self._arr(vals), name)
        self.model[name] = [self._v(v) for v in vals]

    def op_setitem_scalar(self, name, s):
        s = self._v(s)
        self.cf[name] = s
        self.model[name] = [float(s)] * self.n

    def op_setitem_array(self, name, vals):
        self.cf[name] = self._arr(vals)
        self.model[name] = [self._v(v) for v in vals]

    def op_setattr_scalar(self, name, s):
        s = self._v(s) if not isinstance(s, int) else s
        setattr(self.cf, name, s)
        self.model[name] = [float(s)] * self.n

    def op_setattr_array(self, name, vals):
        setattr(self.cf, name, self._arr(vals))
        self.model[name] = [self._v(v) for v in vals]

    def op_setattr_other(self, s):
        self.cf.newthing = s                     # not a column: must not become one

    def op_view_write(self, name, via, i, s):
        view = {"attr": lambda: getattr(self.cf, name), "item": lambda: self.cf[name],
                "get": lambda: self.cf.getcolumn(name)}[via]()
        s = self._v(s)
        view[i] = s
        self.model[name][i] = float(s)

    def op_inplace_mul(self, name, k):
        # the issue-289 usage: cf.name *= k  (getattr, in-place multiply, setattr)
        if self.intmode and k != int(k):
            k = 2.0
        v = getattr(self.cf, name)
        v *= (int(k) if (self.intmode and v.dtype.kind in "iu") else k)
        setattr(self.cf, name, v)
        self.model[name] = [x * k for x in self.model[name]]

    def op_filter(self, mask, kind="bool"):
        # "an nrows long array of true/false" in any representation numpy turns into booleans
        arg = {"bool": lambda m: np.array(m, bool), "list": lambda m: [bool(x) for x in m],
               "int": lambda m: np.array(m, int) * 3, "float": lambda m: np.array(m, float) * 0.25,
               "neg": lambda m: -np.array(m, int), "u8": lambda m: np.array(m, np.uint8) * 255}[kind](mask)
        self.cf.filter(arg)
        for k in self.model:
            self.model[k] = [x for x, keep in zip(self.model[k], mask) if keep]
        self.n = int(sum(mask))

    def op_removerows(self, name, vals, tol):
        if tol <= 0:
            keep = [int(x) not in vals for x in self.model[name]]
        else:
            keep = [not any(abs(x - v) < tol for v in vals) for x in self.model[name]]
        if tol <= 0:
            self.cf.removerows(name, vals)
        else:
            self.cf.removerows(name, vals, tol=tol)
        for k in self.model:
            self.model[k] = [x for x, kp in zip(self.model[k], keep) if kp]
        self.n = int(sum(keep))

    def op_sortby(self, name):
        before = sorted(zip(*[self.model[t] for t in self.cf.titles])) if self.model else []
        self.cf.sortby(name)
        rows = list(zip(*[[float(x) for x in self.cf.getcolumn(t)] for t in self.cf.titles])) if self.model else []
        col = [float(x) for x in self.cf.getcolumn(name)]
        if any(b < a for a, b in zip(col[:-1], col[1:])):
            self.pending = [fail("sortby", "column %s not ascending after sortby" % name, op="sortby")]
        elif sorted(rows) != before:
            self.pending = [fail("sortby", "sortby(%s) did not apply one permutation to every column" % name,
                                 op="sortby")]
        else:
            for j, t in enumerate(self.cf.titles):          # adopt the (valid) order
                self.model[t] = [r[j] for r in rows]

    def op_reorder(self, perm):
        self.cf.reorder(np.array(perm, int))
        for k in self.model:
            self.model[k] = [self.model[k][i] for i in perm]

    def op_get_bigarray(self):
        b = self.cf.bigarray
        exp = np.array([self.model[t] for t in self.cf.titles], float).reshape(len(self.cf.titles), self.n)
        if np.shape(b) != exp.shape or not np.array_equal(np.asarray(b, float), exp):
            self.pending = [fail("bigarray", "bigarray differs from the columns (shape %s, expected %s)" %
                                 (np.shape(b), exp.shape), op="get_bigarray")]

    def op_set_bigarray(self, twod, table):
        # table: list of rows-per-title (len = number of titles)
        table = [[self._v(x) for x in r] for r in table]
        ar = [np.array(r, float) for r in table]
        if twod == 2:        # transposed view of a row-major (nrows x ncols) table
            self.cf.bigarray = np.array(ar, float).T.copy().T
        else:
            self.cf.bigarray = np.array(ar, float) if twod else ar
        for t, r in zip(self.cf.titles, table):
            self.model[t] = [float(x) for x in r]
        self.n = len(table[0])

    def op_copy(self):
        c = self.cf.copy()
        self.copies.append([c, {k: list(v) for k, v in self.model.items()}])

    def op_copyrows(self, kind, sel):
        if kind == "mask":
            rows = np.array(sel, bool)
            idx = [i for i, k in enumerate(sel) if k]
        elif kind == "index":
            rows = np.array(sel, int)
            idx = list(sel)
        else:
            rows = slice(*sel)
            idx = list(range(self.n))[rows]
        c = self.cf.copyrows(rows)
        self.copies.append([c, {k: [v[i] for i in idx] for k, v in self.model.items()}])

    def op_mutate_copy(self, k, name, s):
        c, m = self.copies[k % len(self.copies)]
        if name in m:
            s = self._v(s)
            c[name] = s
            m[name] = [float(s)] * len(m[name])

    def op_copy_addcolumn(self, k, name, vals):
        # a copy (whole or of rows) is a columnfile of its own: it takes new columns like any other
        if not self.copies:
            return
        c, m = self.copies[k % len(self.copies)]
        n = len(next(iter(m.values()))) if m else c.nrows
        v = [self._v(x) for x in (list(vals) * (n // max(1, len(vals)) + 1))[:n]]
        c.addcolumn(np.array(v, float), name)
        m[name] = v

    def op_rewrite(self):
        fn = os.path.join(self.tmp, "c17_rw.flt")
        self.cf.writefile(fn)
        self.cf.readfile(fn)
        os.remove(fn)
        # the text format keeps six decimals of a column without a known title (what it keeps exactly is the subject
        # of C18): values that need more come back rounded, and the table then holds the rounded values
        for t in list(self.model):
            if t in self.cf.titles:
                back = [float(x) for x in self.cf.getcolumn(t)]
                if len(back) == len(self.model[t]) and all(abs(a - b) <= 0.5e-6 * (1 + 1e-9) for a, b in
                                                           zip(back, self.model[t])):
                    self.model[t] = back

    def op_bad_addcolumn(self, name, extra):
        try:
            self.cf.addcolumn(np.zeros(self.n + extra), name)
        except Exception as e:      # documented: Exception("Wrong length column")
            if "Wrong length" not in str(e):
                raise
        else:
            self.pending = [fail("reject", "addcolumn accepted a column of the wrong length", op="bad_addcolumn")]

    def op_bad_setitem(self, name, extra):
        # item assignment of a new title goes through the same length test, also on a table emptied of its rows
        if name in self.cf.titles or not self.cf.titles:
            return
        try:
            self.cf[name] = np.zeros(self.n + extra)
        except Exception as e:
            if "Wrong length" not in str(e):
                raise
        else:
            self.pending = [fail("reject", "cf[%r] = array of %d values accepted on a table of %d rows" %
                                 (name, self.n + extra, self.n), op="bad_setitem")]
            self.model[name] = [0.0] * (self.n + extra)

    def op_bad_set_bigarray(self, extra):
        # a ragged list is refused (AssertionError "not rectangular"); the object must be what it was before
        if len(self.cf.titles) < 2:
            return
        ragged = [np.zeros(self.n + extra + (1 if k else 0)) for k in range(len(self.cf.titles))]
        try:
            self.cf.bigarray = ragged
        except AssertionError:
            pass
        except Exception as e:
            if "rectang" not in str(e):
                raise
        else:
            self.pending = [fail("reject", "set_bigarray accepted a ragged list of columns", op="bad_set_bigarray")]

    def op_bad_filter(self, extra):
        try:
            self.cf.filter(np.ones(self.n + extra, bool))
        except Exception as e:      # documented: Exception("Mask is the wrong size")
            if "wrong size" not in str(e):
                raise
        else:
            self.pending = [fail("reject", "filter accepted a mask of the wrong size", op="bad_filter")]

    # ------------------------------------------------------------------ invariant
    def invariant(self):
        fails = list(getattr(self, "pending", []))
        self.pending = []
        cf = self.cf
        lastop = self.history[-1][0]
        if cf.nrows != self.n:
            fails.append(fail("nrows", "nrows=%r, model %d after %s" % (cf.nrows, self.n, lastop), op=lastop))
        if list(cf.titles) != list(self.model) and sorted(cf.titles) != sorted(self.model):
            fails.append(fail("titles", "titles %s, model %s after %s" % (cf.titles, list(self.model), lastop),
                              op=lastop))
            return fails
        if len(set(cf.titles)) != len(cf.titles):
            fails.append(fail("titles", "duplicate titles %s" % cf.titles, op=lastop))
        if cf.ncols != len(cf.titles):
            fails.append(fail("ncols", "ncols=%r but %d titles after %s" % (cf.ncols, len(cf.titles), lastop),
                              op=lastop))
        for t in cf.titles:
            exp = self.model[t]
            views = {}
            for via, get in (("attr", lambda: getattr(cf, t)), ("item", lambda: cf[t]),
                             ("get", lambda: cf.getcolumn(t))):
                try:
                    v = get()
                except Exception as e:
                    fails.append(fail("view", "%s view of %r raised %s: %s after %s" %
                                      (via, t, type(e).__name__, e, lastop), op=lastop, via=via))
                    continue
                if np.ndim(v) != 1 or len(v) != self.n:
                    fails.append(fail("rectangular", "%s view of %r has shape %s, nrows %d after %s" %
                                      (via, t, np.shape(v), self.n, lastop), op=lastop, via=via))
                    continue
                if [float(x) for x in v] != exp:
                    fails.append(fail("values", "%s view of %r = %s, model %s after %s" %
                                      (via, t, [float(x) for x in v][:8], exp[:8], lastop), op=lastop, via=via))
                    continue
                views[via] = v
            # aliasing probe: a write through one view is visible through the others
            if len(views) == 3 and self.n > 0 and not fails:
                for via in ("attr", "item", "get"):
                    old = float(views[via][0])
                    probe = 12345.0 if self.intmode else 12345.5
                    try:
                        views[via][0] = probe
                        seen = {o: float(getattr(cf, t)[0] if o == "attr" else
                                         (cf[t][0] if o == "item" else cf.getcolumn(t)[0]))
                                for o in ("attr", "item", "get")}
                        views[via][0] = old
                    except Exception as e:
                        fails.append(fail("alias", "write through %s view of %r raised %s after %s" %
                                          (via, t, e, lastop), op=lastop, via=via))
                        break
                    if any(x != probe for x in seen.values()):
                        fails.append(fail("alias", "a write through the %s view of %r is not visible through "
                                          "%s after %s" % (via, t, [o for o, x in seen.items() if x != probe],
                                                           lastop), op=lastop, via=via))
                        break
        if "newthing" in cf.titles:
            fails.append(fail("titles", "plain attribute became a column", op=lastop))
        # copies
        for c, m in self.copies:
            if sorted(c.titles) != sorted(m):
                fails.append(fail("copy", "copy titles changed after %s" % lastop, op=lastop))
                continue
            for t, exp in m.items():
                try:
                    got = [float(x) for x in c[t]]
                except Exception as e:
                    fails.append(fail("copy", "copy column %r unreadable: %s" % (t, e), op=lastop))
                    continue
                if got != exp:
                    fails.append(fail("copy", "column %r of an earlier copy changed after %s on the source "
                                      "(%s, expected %s)" % (t, lastop, got[:6], exp[:6]), op=lastop))
                for t2 in cf.titles:
                    try:
                        if np.shares_memory(np.asarray(c[t]), np.asarray(cf.getcolumn(t2))):
                            fails.append(fail("copy", "a copy shares storage with its source (column %r / %r) "
                                              "after %s" % (t, t2, lastop), op=lastop))
                            break
                    except Exception:
                        pass
        return fails

    def step(self, op, args):
        """apply + invariant; exceptions from the code under test are failures."""
        try:
            self.apply(op, args)
        except Violation:
            raise
        except Exception as e:
            if _in_code_under_test(e):
                f = exc_failure(op, e)
                f["sig"]["op"] = op
                return [f]
            raise
        return self.invariant()


def nontrivial(history):
    ops = [h[0] for h in history]
    for i, o in enumerate(ops):
        if o in ("get_bigarray", "set_bigarray") and any(x in MUTATORS for x in ops[i + 1:]):
            return True
        if o in ("copy", "copyrows") and any(x in MUTATORS for x in ops[i + 1:]):
            return True
    return False


def jsonable(history):
    out = []
    for op, args in history:
        out.append([op, [a if not isinstance(a, (tuple, dict)) else
                         (list(a) if isinstance(a, tuple) else a) for a in (args if op != "init" else [args])]])
    return out


def replay_history(hist, tmpdir):
    """returns failures of the first failing step"""
    (op0, init) = hist[0][0], hist[0][1][0]
    kind, n, cols = init
    try:
        h = Harness((kind, n, cols), tmpdir)
    except Exception as e:
        if _in_code_under_test(e):
            return [exc_failure("init", e)], None
        raise
    f = h.invariant()
    if f:
        return f, h
    for op, args in hist[1:]:
        args = [tuple(a) if (op == "copyrows" and isinstance(a, list) and False) else a for a in args]
        f = h.step(op, args)
        if f:
            return f, h
    return [], h


# ---------------------------------------------------------------------- typed columns, realistic magnitudes

TYPES = ["float64", "float64", "float32", "int64", "int32", "uint8", "uint16", "uint32", "uint64", "bool"]


@st.composite
def typedcases(draw):
    """columns as files and detector code deliver them: peak ids and counts as (unsigned) integers, flags as booleans,
    positions of a few 10^4 .. 10^6 as floats; one row operation on the table"""
    n = draw(st.integers(1, 12))
    ncol = draw(st.integers(1, 3))
    cols = []
    for _ in range(ncol):
        tp = draw(st.sampled_from(TYPES))
        if tp == "bool":
            v = draw(st.lists(st.integers(0, 1), min_size=n, max_size=n))
            base = 0
        else:
            hi = 200 if tp == "uint8" else 40
            q = 1 if tp[0] in "iu" else 4
            base = draw(st.sampled_from([0, 0, 40000, 1000000, 2 ** 32])) if tp not in ("uint8",) else 0
            if tp == "uint16":
                base = min(base, 40000)
            if base == 2 ** 32 and tp not in ("float64", "int64", "uint64"):      # 64 bit identifiers of long scans
                base = 1000000
            lo = 0 if (tp[0] == "u" or base) else -hi
            v = [base + k / float(q) for k in draw(st.lists(st.integers(lo * q, hi * q), min_size=n, max_size=n))]
        cols.append([tp, v])
    op = draw(st.sampled_from(["sortby", "sortby", "removerows_int", "removerows_tol", "setcolumn", "copyrows_index"]))
    target = draw(st.integers(0, ncol - 1))
    tol = draw(st.sampled_from([0.25, 0.5, 0.75, 1.0]))
    # values to remove: near members of the target column
    picks = draw(st.lists(st.tuples(st.integers(0, n - 1), st.integers(-4, 4)), min_size=1, max_size=3))
    return dict(n=n, cols=cols, op=op, target=target, tol=tol, picks=picks)


def check_typed(case, rec=None):
    from ImageD11 import columnfile
    names = NAMES[:len(case["cols"])]
    arrays = {nm: np.array(v, float).astype(tp) for nm, (tp, v) in zip(names, case["cols"])}
    model = [[float(x) for x in arrays[nm]] for nm in names]
    ok_, cf = True, None
    try:
        cf = columnfile.colfile_from_dict({nm: a.copy() for nm, a in arrays.items()})
    except Exception as e:
        if _in_code_under_test(e):
            return [exc_failure("colfile_from_dict", e)]
        raise
    tname = names[case["target"]]
    tcol = model[case["target"]]
    fails = []
    op = case["op"]
    try:
        newv = None
        if op == "sortby":
            cf.sortby(tname)
            keep = None
        elif op == "setcolumn":
            # a column replaced by the method: the table then holds the values given, whatever the column held before
            newv = [x + 0.25 for x in tcol]
            cf.setcolumn(np.array(newv, float), tname)
            keep = None
        elif op == "copyrows_index":
            # rows picked by an index array (any order, repeats allowed)
            idx = [i for i, d in case["picks"]] + [case["n"] - 1 - i for i, d in case["picks"]][:2]
            cf = cf.copyrows(np.array(idx, int))
            keep = None
        else:
            vals = [tcol[i] + d * 0.25 for i, d in case["picks"]]
            if op == "removerows_int":
                vals = [int(v) for v in vals]
                cf.removerows(tname, vals)
                keep = [int(x) not in vals for x in tcol]
            else:
                cf.removerows(tname, vals, tol=case["tol"])
                keep = [not any(abs(x - v) < case["tol"] for v in vals) for x in tcol]
    except Exception as e:
        if _in_code_under_test(e):
            return [exc_failure(op, e)]
        raise
    got = [[float(x) for x in cf.getcolumn(nm)] for nm in names]
    if any(len(g) != cf.nrows for g in got):
        fails.append(fail("typed", "%s: nrows %d, column lengths %s" % (op, cf.nrows, [len(g) for g in got]), op=op))
    elif op == "setcolumn":
        exp = [list(m) for m in model]
        exp[case["target"]] = newv
        if got != exp:
            fails.append(fail("typed", "setcolumn of a %s column with the values %s: the table holds %s (other columns %s)"
                              % (case["cols"][case["target"]][0], newv[:4], got[case["target"]][:4],
                                 "unchanged" if all(g == m for k, (g, m) in enumerate(zip(got, model))
                                                    if k != case["target"]) else "changed"), op=op))
    elif op == "copyrows_index":
        exp = [[m[i] for i in idx] for m in model]
        if got != exp:
            fails.append(fail("typed", "copyrows(index array %s): rows %s, expected %s" %
                              (idx, got[case["target"]][:6], exp[case["target"]][:6]), op=op))
    elif op == "sortby":
        col = got[case["target"]]
        if any(b < a for a, b in zip(col[:-1], col[1:])):
            fails.append(fail("typed", "sortby on a %s column: not ascending afterwards %s" %
                              (case["cols"][case["target"]][0], col[:6]), op=op))
        elif sorted(zip(*got)) != sorted(zip(*model)):
            fails.append(fail("typed", "sortby on a %s column did not apply one permutation to every column" %
                              case["cols"][case["target"]][0], op=op))
    else:
        exp = [[x for x, k in zip(m, keep) if k] for m in model]
        if got != exp:
            fails.append(fail("typed", "%s(%s column, values %s%s): rows kept %s, expected %s" % (
                op, case["cols"][case["target"]][0], vals, "" if op == "removerows_int" else ", tol %g" % case["tol"],
                got[case["target"]][:6], exp[case["target"]][:6]), op=op))
    for nm, a in arrays.items():
        if op == "setcolumn" and nm == tname:
            continue
        if not fails and cf.getcolumn(nm).dtype != a.dtype:
            fails.append(fail("typed", "%s changed the type of column %s from %s to %s" %
                              (op, nm, a.dtype, cf.getcolumn(nm).dtype), op=op))
    if rec is not None:
        moved = (op in ("sortby", "setcolumn", "copyrows_index") and got[case["target"]] != tcol) or \
            (keep is not None and not all(keep) and any(keep))
        rec.case(case, bool(moved), ["typed:" + op, "typed:" + case["cols"][case["target"]][0]] +
                 (["typed:large_values"] if max(abs(x) for x in tcol) >= 40000 else []))
    return fails


# ---------------------------------------------------------------------- hypothesis machine

VALS = st.integers(-10, 10).map(lambda k: k / 2.0)
HOLDER = {}
REC = [None]


def make_machine(tmpdir):
    class CF(RuleBasedStateMachine):
        def __init__(self):
            super(CF, self).__init__()
            self.h = None

        def col(self, data):
            return data.draw(st.lists(VALS, min_size=self.h.n, max_size=self.h.n))

        def existing(self, data):
            return data.draw(st.sampled_from(list(self.h.model)))

        def do(self, op, args):
            fails = self.h.step(op, args)
            self.after(fails)

        def after(self, fails):
            rec = REC[0]
            unknown = rec.filter_known(fails) if fails else []
            if unknown:
                HOLDER["case"] = jsonable(self.h.history)
                HOLDER["fails"] = unknown
                raise Violation(unknown[0]["kind"])

        @initialize(kind=st.sampled_from(["dict", "views", "empty", "text", "hdf", "ints"]), n=st.integers(1, 6),
                    k=st.integers(1, 3), data=st.data())
        def init(self, kind, n, k, data):
            cols = {}
            for name in NAMES[:k]:
                cols[name] = data.draw(st.lists(VALS, min_size=n, max_size=n))
            try:
                self.h = Harness((kind, n, cols), tmpdir)
            except Exception as e:
                if _in_code_under_test(e):
                    HOLDER["case"] = [["init", [[kind, n, cols]]]]
                    HOLDER["fails"] = [exc_failure("init", e)]
                    raise Violation("init")
                raise
            self.after(self.h.invariant())

        @rule(name=st.sampled_from(NAMES), data=st.data())
        def addcolumn(self, name, data):
            self.do("addcolumn", [name, self.col(data)])

        @rule(data=st.data())
        def setcolumn(self, data):
            self.do("setcolumn", [self.existing(data), self.col(data)])

        @rule(data=st.data(), s=VALS)
        def setitem_scalar(self, data, s):
            self.do("setitem_scalar", [self.existing(data), s])

        @rule(name=st.sampled_from(NAMES), data=st.data())
        def setitem_array(self, name, data):
            self.do("setitem_array", [name, self.col(data)])

        @rule(data=st.data(), s=st.one_of(VALS, st.integers(-9, 9)))
        def setattr_scalar(self, data, s):
            self.do("setattr_scalar", [self.existing(data), s])

        @rule(data=st.data())
        def setattr_array(self, data):
            self.do("setattr_array", [self.existing(data), self.col(data)])

        @rule(s=st.integers(0, 5))
        def setattr_other(self, s):
            self.do("setattr_other", [s])

        @precondition(lambda self: self.h is not None and self.h.n > 0)
        @rule(data=st.data(), via=st.sampled_from(["attr", "item", "get"]), s=VALS)
        def view_write(self, data, via, s):
            self.do("view_write", [self.existing(data), via, data.draw(st.integers(0, self.h.n - 1)), s])

        @rule(data=st.data(), k=st.sampled_from([2.0, 0.5, -1.0]))
        def inplace_mul(self, data, k):
            self.do("inplace_mul", [self.existing(data), k])

        @rule(data=st.data())
        def filter(self, data):
            self.do("filter", [data.draw(st.lists(st.booleans(), min_size=self.h.n, max_size=self.h.n)),
                               data.draw(st.sampled_from(["bool", "bool", "list", "int", "float", "neg", "u8"]))])

        @rule(data=st.data(), tol=st.sampled_from([0, 0, 0.3, 0.75]))
        def removerows(self, data, tol):
            vals = data.draw(st.lists(st.integers(-5, 5), min_size=1, max_size=3))
            self.do("removerows", [self.existing(data), vals, tol])

        @rule(data=st.data())
        def sortby(self, data):
            self.do("sortby", [self.existing(data)])

        @rule(data=st.data())
        def reorder(self, data):
            self.do("reorder", [list(data.draw(st.permutations(list(range(self.h.n)))))])

        @rule()
        def get_bigarray(self):
            self.do("get_bigarray", [])

        @rule(data=st.data(), twod=st.sampled_from([0, 1, 2]), newn=st.one_of(st.none(), st.integers(1, 6)))
        def set_bigarray(self, data, twod, newn):
            n = self.h.n if newn is None else newn
            table = [data.draw(st.lists(VALS, min_size=n, max_size=n)) for _ in self.h.model]
            self.do("set_bigarray", [twod, table])

        @rule()
        def copy(self):
            self.do("copy", [])

        @rule(data=st.data(), kind=st.sampled_from(["mask", "index", "slice"]))
        def copyrows(self, data, kind):
            n = self.h.n
            if kind == "mask":
                sel = data.draw(st.lists(st.booleans(), min_size=n, max_size=n))
            elif kind == "index":
                sel = data.draw(st.lists(st.integers(0, max(n - 1, 0)), min_size=0, max_size=n + 2)) if n else []
            else:
                sel = [data.draw(st.integers(0, n)), data.draw(st.integers(0, n)),
                       data.draw(st.sampled_from([1, 1, 2, -1]))]
                if sel[2] < 0:
                    sel = [max(sel[0], sel[1]) - 1 if max(sel[0], sel[1]) > 0 else None, None, -1]
            self.do("copyrows", [kind, sel])

        @precondition(lambda self: self.h is not None and len(self.h.copies) > 0)
        @rule(k=st.integers(0, 5), name=st.sampled_from(NAMES), s=VALS)
        def mutate_copy(self, k, name, s):
            self.do("mutate_copy", [k, name, s])

        @precondition(lambda self: self.h is not None and len(self.h.copies) > 0)
        @rule(k=st.integers(0, 5), name=st.sampled_from(NAMES + ["q"]), data=st.data())
        def copy_addcolumn(self, k, name, data):
            self.do("copy_addcolumn", [k, name, data.draw(st.lists(VALS, min_size=1, max_size=6))])

        @precondition(lambda self: self.h is not None and self.h.n > 0)
        @rule()
        def rewrite(self):
            self.do("rewrite", [])

        @rule(name=st.sampled_from(NAMES), extra=st.sampled_from([1, 2]))
        def bad_addcolumn(self, name, extra):
            self.do("bad_addcolumn", [name, extra])

        @rule(extra=st.sampled_from([1, 3]))
        def bad_filter(self, extra):
            self.do("bad_filter", [extra])

        @rule(name=st.sampled_from(NAMES + ["w"]), extra=st.sampled_from([1, 2]))
        def bad_setitem(self, name, extra):
            self.do("bad_setitem", [name, extra])

        @rule(extra=st.sampled_from([0, 1, 2]))
        def bad_set_bigarray(self, extra):
            self.do("bad_set_bigarray", [extra])

        def teardown(self):
            rec = REC[0]
            if self.h is not None and rec is not None:
                hist = jsonable(self.h.history)
                ops = [h[0] for h in hist]
                rec.case(hist, nontrivial(self.h.history), ["init:" + self.h.history[0][1][0],
                                                            "len:%d" % min(30, 5 * (len(ops) // 5))])
    return CF


# ---------------------------------------------------------------------- exhaustive enumeration

def alphabet(n):
    """fixed small arguments; sequences over this alphabet are enumerated exhaustively."""
    return [
        ("get_bigarray", []),
        ("set_bigarray", [2, None]),              # table filled in at run time (depends on titles)
        ("setitem_scalar", ["a", 7.0]),
        ("setattr_scalar", ["a", 9]),
        ("setattr_array", ["a", "ramp"]),
        ("addcolumn", ["z", "ramp"]),
        ("addcolumn", ["a", "ramp2"]),
        ("view_write", ["a", "attr", 0, 3.5]),
        ("view_write", ["b", "item", 1, -2.5]),
        ("filter", ["head"]),
        ("sortby", ["b"]),
        ("reorder", ["rev"]),
        ("copy", []),
        ("rewrite", []),
    ]


def run_sequence(init, seq, tmpdir):
    """Execute one enumerated sequence; returns (failures, history)."""
    try:
        h = Harness(init, tmpdir)
    except Exception as e:
        if _in_code_under_test(e):
            return [exc_failure("init", e)], [["init", [list(init)]]]
        raise
    f = h.invariant()
    if f:
        return f, jsonable(h.history)
    for op, args in seq:
        n = h.n
        a = list(args)
        if op == "set_bigarray":
            a = [2, [[float(i + 10 * k) for i in range(max(n, 1))] for k, _ in enumerate(h.model)]]
        a = [([float(i) for i in range(n)] if x == "ramp" else
              ([float(n - i) for i in range(n)] if x == "ramp2" else
               ([True] * (n - 1) + [False] if x == "head" else
                (list(range(n))[::-1] if x == "rev" else x)))) for x in a]
        if op == "view_write" and (a[2] >= n or a[0] not in h.model):
            continue
        if op in ("sortby", "setitem_scalar", "setattr_scalar", "setattr_array") and a[0] not in h.model:
            continue
        if op == "filter" and n == 0:
            continue
        if op == "rewrite" and n == 0:
            continue
        f = h.step(op, a)
        if f:
            return f, jsonable(h.history)
    return [], jsonable(h.history)


def run_shard(rec):
    quick = rec.tier == "quick"
    tmpdir = os.environ.get("VERIF_TMP", ".")
    REC[0] = rec
    # pinned regressions of the fixed defect D8
    regress = [
        [["init", [["dict", 3, {"a": [1., 2., 3.], "b": [4., 5., 6.]}]]], ["get_bigarray", []],
         ["setitem_scalar", ["a", 7.0]], ["filter", [[True, True, False]]]],
        [["init", [["dict", 3, {"a": [1., 2., 3.]}]]], ["get_bigarray", []], ["addcolumn", ["z", [1., 1., 1.]]]],
        [["init", [["dict", 3, {"a": [1., 2., 3.]}]]], ["setattr_scalar", ["a", 10]], ["filter", [[True, False, True]]]],
    ]
    if rec.shard == 0:
        for hist in regress:
            f, _ = replay_history(hist, tmpdir)
            f = rec.filter_known(f) if f else []
            rec.case(hist, nontrivial([(h[0], h[1]) for h in hist]), ["regression"])
            if f:
                rec.violation("history", hist, f)
    # exhaustive sequences
    depth = 3 if quick else 4
    inits = [("dict", 3, {"a": [3., 1., 2.], "b": [0.5, 0.5, -1.]}),
             ("empty", 3, {"a": [3., 1., 2.], "b": [0.5, 0.5, -1.]}),
             ("text", 3, {"a": [3., 1., 2.], "b": [0.5, 0.5, -1.]}),
             ("hdf", 3, {"a": [3., 1., 2.], "b": [0.5, 0.5, -1.]}),
             ("views", 3, {"a": [3., 1., 2.], "b": [0.5, 0.5, -1.]})]
    alpha = alphabet(3)
    seqs = itertools.product(range(len(alpha)), repeat=depth)
    nv = 0
    for k, idx in enumerate(seqs):
        if k % rec.nshards != rec.shard:
            continue
        for init in inits:
            seq = [alpha[i] for i in idx]
            f, hist = run_sequence(init, seq, tmpdir)
            rec.case(hist, nontrivial([(h[0], h[1]) for h in hist]), ["exhaustive"],
                     key=hash(("ex", init[0], idx)) & (2 ** 60 - 1))
            f = rec.filter_known(f) if f else []
            if f:
                rec.violation("history", hist, f)
                nv += 1
        if nv >= 3:
            break
    rec.note("exhaustive_depth", depth, "max")
    hyp_run(rec, "typed", typedcases(), lambda c: check_typed(c, rec), max_examples=400 if quick else 4000)
    hyp_stateful(rec, "history", make_machine(tmpdir), HOLDER, max_examples=400 if quick else 2500,
                 steps=30 if quick else 50)


def replay(sub, case, rec):
    REC[0] = rec
    if sub == "typed":
        return check_typed(case, rec)
    f, _ = replay_history(case, os.environ.get("VERIF_TMP", "."))
    return f
