"""C15 - N-D peak merging equals graph connected components on any schedule."""
import numpy as np
from hypothesis import strategies as st
from vf import oracles
from vf.runner import hyp_run, run_cases, guard, fail, exc_failure

RULE = ("overlap graphs with 1..2e4 nodes (quick) / 1e6 (thorough): random sparse, chains with shuffled node ids and "
        "edge order (many sweeps), in-order long chains, stars, grids of sinogram-like neighbours with missing links, "
        "'late bridge' graphs (two already-consistent groups joined by one edge stored far away in the pair list, "
        "> 4096 pairs), duplicate edges, self-loops, no edges, node 0 isolated or connected; property tables of "
        "positive integers; omega/dty/scale-factor arrays (none, constant, per-frame); numba threads {1,2,4,16}; both "
        "find_uniq routes (numba sweep and scipy); sub-check pipeline: 2-4 scan rows x 3-8 frames of 3x3 blobs written as a sparse file and a dataset file, sinograms.properties.main with 1-2 processes (rotation forwards, zig-zag, backwards, from -180, across 360; empty frames), labels and merged properties against a union-find over the written blobs; oracle = harness union-find / scipy connected components and "
        "numpy add.at sums; non-trivial = a component with >= 3 nodes whose labels need >= 2 sweeps (its smallest "
        "node is not adjacent to all members); distinct = hash of the case")
ASSUMPTIONS = ["numba prange schedules are sampled through the thread count (1,2,4,16) and edge-order shuffles",
               "label numbering is not prescribed: partitions are compared, labels must be exactly 0..n-1",
               "weighted means compared to 1e-12 relative"]
WARMUP = ["ImageD11.sinograms.properties"]
THREADS = [1, 2, 4, 16]


def shard_layout(tier):
    return [("opt", None)] * (4 if tier == "quick" else 16)


def warmup():
    from ImageD11.sinograms import properties
    i = np.array([0, 1], np.int64)
    properties.find_ND_labels(i, i[::-1].copy(), 3, verbose=0)
    pk = np.ones((5, 3), np.int64)
    pk[4] = 0
    om = np.zeros((1, 2))
    # through the table object, which sizes the accumulators itself (the kernel has no bounds checks)
    t = properties.pks_table()
    t.pk_props, t.glabel, t.nlabel = pk, np.zeros(3, np.int64), 1
    t.pk2dmerge(om, om)
    t.pk2dmerge(om, om, om + 1)
    properties.n_pk2d(pk[0], pk[1], pk[2], pk[3], pk[4], om, om)


@st.composite
def cases(draw, nmax=20000):
    kind = draw(st.sampled_from(["random", "random", "chain_shuffled", "chain_inorder", "star", "grid", "late_bridge",
                                 "none", "dups_loops"]))
    n = draw(st.one_of(st.integers(1, 60), st.integers(61, nmax)))
    seed = draw(st.integers(0, 2 ** 31 - 1))
    node0 = draw(st.sampled_from(["any", "isolated", "connected"]))
    scale = draw(st.sampled_from(["none", "none", "const", "frame", "tiny"]))
    threads = draw(st.lists(st.sampled_from(THREADS), min_size=2, max_size=3, unique=True))
    return dict(kind=kind, n=n, seed=seed, node0=node0, scale=scale, threads=sorted(threads))


def build(case):
    rng = np.random.RandomState(case["seed"] % (2 ** 32))
    n, kind = case["n"], case["kind"]
    if kind == "random":
        m = int(n * rng.choice([0.3, 0.7, 1.0, 2.0]))
        ei = rng.randint(0, n, m)
        ej = rng.randint(0, n, m)
    elif kind in ("chain_shuffled", "chain_inorder"):
        if kind == "chain_shuffled":
            n = min(n, 1500)
        ids = rng.permutation(n) if kind == "chain_shuffled" else np.arange(n)
        nchains = 1 + rng.randint(0, 3)
        cuts = np.sort(rng.choice(np.arange(1, max(n, 2)), min(nchains - 1, max(n - 1, 0)), replace=False)) \
            if n > 1 else np.array([], int)
        keep = np.ones(max(n - 1, 0), bool)
        keep[cuts - 1] = False
        ei = ids[:-1][keep]
        ej = ids[1:][keep]
        if kind == "chain_shuffled":
            o = rng.permutation(len(ei))
            ei, ej = ei[o], ej[o]
    elif kind == "star":
        hub = rng.randint(0, n)
        leaves = np.nonzero(rng.random_sample(n) < 0.8)[0]
        ei = np.full(len(leaves), hub)
        ej = leaves
    elif kind == "grid":
        w = max(1, int(np.sqrt(n)))
        n = w * w
        idx = np.arange(n).reshape(w, w)
        a = np.concatenate([idx[:, :-1].ravel(), idx[:-1, :].ravel()])
        b = np.concatenate([idx[:, 1:].ravel(), idx[1:, :].ravel()])
        keep = rng.random_sample(len(a)) < rng.choice([0.3, 0.5, 0.7])
        ei, ej = a[keep], b[keep]
    elif kind == "late_bridge":
        # two groups, each internally consistent after the first sweeps, joined by one pair that sits in
        # another region of the (long) pair list
        n = max(n, 6000)
        half = n // 2
        a1 = np.arange(0, half - 1)
        a2 = np.arange(half, n - 1)
        ei = np.concatenate([a1, a2])
        ej = np.concatenate([a1 + 1, a2 + 1])
        pos = rng.randint(0, len(ei) + 1)
        u, v = rng.randint(0, half), rng.randint(half, n)
        ei = np.insert(ei, pos, v if rng.randint(2) else u)
        ej = np.insert(ej, pos, u if ei[pos] == v else v)
    elif kind == "none":
        ei = np.zeros(0, int)
        ej = np.zeros(0, int)
    else:  # duplicates and self loops
        m = int(n * 0.8) + 1
        ei = rng.randint(0, n, m)
        ej = rng.randint(0, n, m)
        ei = np.concatenate([ei, ei, np.arange(0, n, 3)])
        ej = np.concatenate([ej, ej, np.arange(0, n, 3)])
    if case["node0"] == "isolated" and len(ei):
        keep = (ei != 0) & (ej != 0)
        ei, ej = ei[keep], ej[keep]
    elif case["node0"] == "connected" and n > 1:
        ei = np.concatenate([ei, [0]])
        ej = np.concatenate([ej, [rng.randint(1, n)]])
    nfr = max(2, min(200, n))
    pk = np.empty((5, n), np.int64)
    pk[0] = rng.randint(1, 50, n)
    pk[1] = rng.randint(1, 10 ** 6, n)
    pk[2] = pk[1] * rng.randint(0, 2000, n)
    pk[3] = pk[1] * rng.randint(0, 2000, n)
    pk[4] = rng.randint(0, nfr, n)
    shape = (2, (nfr + 1) // 2 + 1)
    omega = rng.uniform(-180, 180, shape)
    dty = rng.uniform(-50, 50, shape)
    sf = {"none": None, "const": np.full(shape, 1.7), "frame": rng.uniform(0.5, 2.0, shape),
          # normalisation to a monitor that counts millions: merged intensities far below one
          "tiny": rng.uniform(0.5, 2.0, shape) * 2.0 ** -24}[case["scale"]]
    return n, ei.astype(np.int64), ej.astype(np.int64), pk, omega, dty, sf


def ref_components(n, ei, ej):
    from scipy.sparse import coo_matrix, csgraph
    if len(ei):
        g = coo_matrix((np.ones(len(ei)), (ei, ej)), shape=(n, n))
        nc, lab = csgraph.connected_components(g, directed=False)
    else:
        nc, lab = n, np.arange(n)
    if n <= 5000:
        lab2, nc2 = oracles.graph_components(n, ei, ej)
        if nc2 != nc or not same_part(lab, lab2):
            raise RuntimeError("harness: scipy and union-find disagree")
    return nc, lab


def same_part(a, b):
    a = np.asarray(a)
    b = np.asarray(b)
    pairs = np.unique(np.stack([a, b], 1), axis=0)
    return len(pairs) == len(np.unique(pairs[:, 0])) == len(np.unique(pairs[:, 1]))


def check(case, rec=None):
    import numba
    from ImageD11.sinograms import properties
    n, ei, ej, pk, omega, dty, sf = build(case)
    nc, ref = ref_components(n, ei, ej)
    fails = []
    rng = np.random.RandomState((case["seed"] + 3) % (2 ** 32))
    results = []
    maxthreads = numba.config.NUMBA_NUM_THREADS
    try:
        for nt in case["threads"]:
            numba.set_num_threads(min(nt, maxthreads))
            for shuffle in (False, True):
                if shuffle and len(ei) > 1:
                    o = rng.permutation(len(ei))
                    a, b = ei[o].copy(), ej[o].copy()
                    sw = rng.random_sample(len(a)) < 0.5
                    a[sw], b[sw] = b[sw], a[sw].copy()
                else:
                    a, b = ei.copy(), ej.copy()
                t = properties.pks_table()
                t.ipk = np.array([0, n])
                # the pair table as any integer array (the library's own is int64; files and callers may differ)
                rcdt = [np.int64, np.int64, np.int32, np.intp, np.uint32, np.uint64, np.uint16][
                    (case["seed"] + nt + int(shuffle)) % 7]
                if rcdt is np.uint16 and n >= 65535:
                    rcdt = np.uint32
                t.rc = np.array([a, b, np.ones(len(a), np.int64)]).astype(rcdt)
                t.pk_props = pk.copy()
                ok, cc = guard(t.find_uniq)
                name = "find_uniq(numba, threads=%d%s)" % (nt, ", shuffled" if shuffle else "")
                if not ok:
                    fails.append(exc_failure(name, cc))
                    break
                nl, lab = cc
                lab = np.asarray(lab)
                if nl != nc:
                    fails.append(fail("count", "%s: %d labels, %d connected components (%d nodes, %d pairs, %s)" %
                                      (name, nl, nc, n, len(ei), case["kind"]), route="numba"))
                if len(lab) != n or lab.min() < 0 or set(np.unique(lab).tolist()) != set(range(nl)):
                    fails.append(fail("labelset", "%s: labels are not exactly 0..n-1 (min %s max %s, n %s)" %
                                      (name, lab.min() if len(lab) else None, lab.max() if len(lab) else None, nl),
                                      route="numba"))
                elif not same_part(lab, ref):
                    fails.append(fail("partition", "%s: labels do not coincide with connectivity (%d nodes, %d "
                                      "pairs, %s)" % (name, n, len(ei), case["kind"]), route="numba"))
                results.append(lab)
                if fails:
                    break
                # merged properties
                # per-frame tables in any memory layout: they are addressed by flat frame number (C order)
                lay = (case["seed"] // 7 + nt) % 4
                om_l = np.asfortranarray(omega) if lay & 1 else omega
                dty_l = dty.T.copy().T if lay & 2 else dty               # a transposed view
                sf_l = np.asfortranarray(sf) if (sf is not None and lay >= 2) else sf
                ok, m = guard(t.pk2dmerge, om_l, dty_l, sf_l)
                if not ok:
                    fails.append(exc_failure("pk2dmerge", m))
                    break
                w = pk[1].astype(float) * (sf.flat[pk[4]] if sf is not None else 1.0)
                scale = (sf.flat[pk[4]] if sf is not None else np.ones(n))

                def acc(v):
                    out = np.zeros(nl)
                    np.add.at(out, lab, v)
                    return out
                sw_ = acc(w)
                exp = {"Number_of_pixels": acc(pk[0].astype(float)), "sum_intensity": sw_, "npk2d": acc(np.ones(n)),
                       "s_raw": acc(pk[2] * scale) / sw_, "f_raw": acc(pk[3] * scale) / sw_,
                       "omega": acc(omega.flat[pk[4]] * w) / sw_, "dty": acc(dty.flat[pk[4]] * w) / sw_}
                for k, v in exp.items():
                    got = np.asarray(m[k], float)
                    if got.shape != v.shape or not np.allclose(got, v, rtol=1e-12, atol=1e-12 * np.abs(v).max()):
                        fails.append(fail("merge", "pk2dmerge[%s] differs from the sum / weighted mean over members "
                                          "(scale %s, %s)" % (k, case["scale"], case["kind"]), col=k))
                        break
                if not np.array_equal(np.asarray(m["spot3d_id"]), np.arange(nl)):
                    fails.append(fail("merge", "pk2dmerge spot3d_id is not 0..n-1", col="spot3d_id"))
                if fails:
                    break
            if fails:
                break
        if not fails:
            # scipy route and per-peak table
            t = properties.pks_table()
            t.ipk = np.array([0, n])
            t.rc = np.array([ei, ej, np.ones(len(ei), np.int64)])
            t.pk_props = pk.copy()
            ok, cc = guard(t.find_uniq, None, True)
            if not ok:
                fails.append(exc_failure("find_uniq(scipy)", cc))
            else:
                nl, lab = cc
                if nl != nc or set(np.unique(lab).tolist()) != set(range(nl)) or not same_part(lab, ref):
                    fails.append(fail("partition", "find_uniq(use_scipy=True) does not coincide with connectivity",
                                      route="scipy"))
                ok, d = guard(t.pk2d, omega, dty, sf)
                if ok:
                    e = {"s_raw": pk[2] / pk[1], "f_raw": pk[3] / pk[1], "omega": omega.flat[pk[4]],
                         "dty": dty.flat[pk[4]], "Number_of_pixels": pk[0],
                         "sum_intensity": pk[1] * (sf.flat[pk[4]] if sf is not None else 1)}
                    for k, v in e.items():
                        if not np.allclose(np.asarray(d[k], float), v, rtol=1e-12):
                            fails.append(fail("pk2d", "pk2d[%s] wrong" % k, col=k))
                            break
                    if not np.array_equal(np.asarray(d["spot3d_id"]), lab):
                        fails.append(fail("pk2d", "pk2d spot3d_id is not the merged label", col="spot3d_id"))
                else:
                    fails.append(exc_failure("pk2d", d))
                # the table written to a file and read back (what the later steps of the workflow start from), with a
                # bright peak in it: moments of the order of 3e9 (above 2^31, below 2^32)
                if not fails and n >= 1:
                    import os
                    tb = properties.pks_table()
                    tb.ipk = np.array([0, n])
                    tb.npk = np.array([[n, len(ei), 0]])
                    tb.pk_props = pk.copy()
                    kb = int(case["seed"] % n)
                    tb.pk_props[1, kb] = 2000000
                    tb.pk_props[2, kb] = 2000000 * 1500 + (case["seed"] % 7)
                    tb.pk_props[3, kb] = 2000000 * 1100
                    tb.glabel, tb.nlabel = np.asarray(lab).copy(), nl
                    fn_ = os.path.join(os.environ.get("VERIF_TMP", "."), "c15_tab_%d.h5" % os.getpid())
                    if os.path.exists(fn_):
                        os.remove(fn_)
                    ok, e_ = guard(tb.save, fn_)
                    if ok:
                        ok, tl = guard(properties.pks_table.load, fn_)
                    if os.path.exists(fn_):
                        os.remove(fn_)
                    if not ok:
                        fails.append(exc_failure("pks_table.save / load", e_ if not isinstance(e_, type(None)) else tl))
                    elif not (np.array_equal(np.asarray(tl.pk_props), tb.pk_props) and
                              np.array_equal(np.asarray(tl.glabel), tb.glabel) and int(tl.nlabel) == int(nl)):
                        bad = np.argwhere(np.asarray(tl.pk_props) != tb.pk_props)
                        fails.append(fail("pk2d", "peak table saved and loaded: %d entries differ, e.g. %s written, %s read"
                                          % (len(bad), tb.pk_props[tuple(bad[0])] if len(bad) else None,
                                             np.asarray(tl.pk_props)[tuple(bad[0])] if len(bad) else None), col="file"))
    finally:
        numba.set_num_threads(min(4, maxthreads))
    if rec is not None:
        # a component with >= 3 nodes in which the smallest node is not adjacent to every member
        nt_ = False
        if len(ei):
            sizes = np.bincount(ref)
            big = sizes[ref] >= 3
            mins = np.full(nc, n)
            np.minimum.at(mins, ref, np.arange(n))
            adj_min = np.zeros(n, bool)
            adj_min[mins] = True
            m1 = ei == mins[ref[ei]]
            adj_min[ej[m1]] = True
            m2 = ej == mins[ref[ej]]
            adj_min[ei[m2]] = True
            nt_ = bool((big & ~adj_min).any())
        rec.case(case, nt_, ["kind:" + case["kind"], "scale:" + case["scale"]] + (["pairs>4096"] if len(ei) > 4096 else []))
    return fails


# ------------------------------------------------------------------ files on disk -> properties.main -> merged peaks

KERNEL = np.array([[1, 2, 1], [2, 4, 2], [1, 2, 1]])
MON = {}


@st.composite
def pipecases(draw):
    """a small scanning data set: 2-4 scan rows x 3-8 frames of a 32 x 32 detector holding 3 x 3 blobs (one maximum each,
    never touching on a frame); rotation forwards, backwards (zig-zag rows), from -180 or across 360; some frames empty"""
    return dict(nrows=draw(st.integers(2, 4)), nframes=draw(st.integers(3, 8)), seed=draw(st.integers(0, 2 ** 31 - 1)),
                sweep=draw(st.sampled_from(["forward", "zigzag", "zigzag", "from-180", "across360", "backward"])),
                nspots=draw(st.integers(2, 7)), empty=draw(st.sampled_from([0.0, 0.2, 0.4])),
                nproc=draw(st.sampled_from([1, 2, 2])))


def build_pipe(case):
    rng = np.random.RandomState(case["seed"] % (2 ** 32))
    nrows, nframes = case["nrows"], case["nframes"]
    w = np.arange(nframes) * 1.0
    start = {"from-180": -180.0 + rng.randint(0, 3), "across360": 360.0 - nframes // 2}.get(case["sweep"], 10.0 * rng.randint(0, 30))
    omega = np.empty((nrows, nframes))
    for k in range(nrows):
        back = case["sweep"] == "backward" or (case["sweep"] == "zigzag" and k % 2 == 1)
        omega[k] = (w[::-1] if back else w) + start + 0.01 * k
    dty = np.arange(nrows) * 0.1
    empty = rng.random_sample((nrows, nframes)) < case["empty"]
    # spots: a detector place and a set of (row, rotation position) cells where it shows, drifting by at most one pixel
    blobs = []
    used = {}
    for _ in range(case["nspots"]):
        r0, c0 = int(rng.randint(0, 29)), int(rng.randint(0, 29))
        k0, io0 = int(rng.randint(nrows)), int(rng.randint(nframes))
        for k in range(max(0, k0 - rng.randint(0, 2)), min(nrows, k0 + rng.randint(1, 3))):
            for io in range(max(0, io0 - rng.randint(0, 2)), min(nframes, io0 + rng.randint(1, 3))):
                f = int(np.nonzero(np.round(omega[k] - start - 0.01 * k) == io)[0][0])
                if empty[k, f]:
                    continue
                rr, cc = r0 + int(rng.randint(-1, 2)), c0 + int(rng.randint(-1, 2))
                rr, cc = min(max(rr, 0), 29), min(max(cc, 0), 29)
                # keep blobs on one frame apart (no shared or touching pixels)
                if any(abs(rr - a) < 5 and abs(cc - b) < 5 for a, b in used.get((k, f), [])):
                    continue
                used.setdefault((k, f), []).append((rr, cc))
                blobs.append((k, f, rr, cc, int(rng.randint(3, 40))))
    return omega, dty, blobs


def check_pipe(case, rec=None):
    import os, io, contextlib, shutil, h5py
    from ImageD11.sinograms import dataset as dsmod, properties
    omega, dty, blobs = build_pipe(case)
    nrows, nframes = omega.shape
    if len(blobs) < 2:
        return []
    d = os.path.join(os.environ.get("VERIF_TMP", "."), "c15_pipe_%d" % os.getpid())
    shutil.rmtree(d, ignore_errors=True)
    os.makedirs(d)
    fails = []

    def px(b):
        rr, cc = np.mgrid[b[2]:b[2] + 3, b[3]:b[3] + 3]
        return rr.ravel(), cc.ravel(), (KERNEL * b[4]).ravel()
    try:
        spname = os.path.join(d, "sparse.h5")
        with h5py.File(spname, "w") as h:
            for k in range(nrows):
                g = h.create_group("%d.1" % (k + 1))
                g.attrs["nframes"] = nframes
                g.attrs["shape0"] = 32
                g.attrs["shape1"] = 32
                g.attrs["itype"] = "uint16"
                rows, cols, vals, nnz = [np.zeros(0, int)], [np.zeros(0, int)], [np.zeros(0)], []
                for f in range(nframes):
                    pp = [px(b) for b in blobs if b[0] == k and b[1] == f]
                    if pp:
                        r = np.concatenate([q[0] for q in pp])
                        c = np.concatenate([q[1] for q in pp])
                        v = np.concatenate([q[2] for q in pp])
                        o = np.lexsort((c, r))
                        rows.append(r[o]); cols.append(c[o]); vals.append(v[o])
                        nnz.append(len(r))
                    else:
                        nnz.append(0)
                g["nnz"] = np.array(nnz, np.uint32)
                g["row"] = np.concatenate(rows).astype(np.uint16)
                g["col"] = np.concatenate(cols).astype(np.uint16)
                g["intensity"] = np.concatenate(vals).astype(np.float32)
                g["measurement/fpico6"] = 5e4 * (1.0 + 0.3 * np.sin(np.arange(nframes) + k))      # a beam monitor
                g["measurement/rot_center"] = omega[k].astype(float)
                g["measurement/dty"] = np.full(nframes, float(dty[k]))
                g["instrument/positioners/dty"] = float(dty[k])

        def run():
            ds = dsmod.DataSet(dataroot=d, analysisroot=d, sample="s", dset="c15")
            ds.import_from_sparse(spname)
            if not os.path.exists(ds.analysispath):
                os.makedirs(ds.analysispath)
            ds.sparsefile = spname
            ds.save()
            properties.main(ds.dsfile, options={"nproc": case["nproc"]})
            ds = dsmod.load(ds.dsfile)
            tbl = ds.peaks_table
            out_ = (ds, tbl, tbl.pk2d(ds.omega, ds.dty), tbl.pk2dmerge(ds.omega, ds.dty))
            # intensities normalised to the beam monitor, the reference value set twice on the same object
            import warnings
            with warnings.catch_warnings():
                warnings.simplefilter("ignore")
                raw4 = np.array(ds.pk4d["sum_intensity"], float)
                ds.set_monitor("fpico6")
                ref1 = float(ds.monitor_ref)
                a4 = np.array(ds.pk4d["sum_intensity"], float)
                a2 = np.array(ds.pk2d["sum_intensity"], float)
                ds.set_monitor("fpico6", ref_value_func=lambda x: 1e5)
                b4 = np.array(ds.pk4d["sum_intensity"], float)
                b2 = np.array(ds.pk2d["sum_intensity"], float)
            MON.clear()
            MON.update(raw4=raw4, ref1=ref1, a4=a4, a2=a2, b4=b4, b2=b2)
            return out_
        with contextlib.redirect_stdout(io.StringIO()), contextlib.redirect_stderr(io.StringIO()):
            ok, res = guard(run)
        if not ok:
            return [exc_failure("sinograms.properties.main / peaks_table", res)]
        ds, tbl, p2, p4 = res
        if MON:
            r_ = 1e5 / MON["ref1"]
            if not (np.allclose(MON["b4"], MON["a4"] * r_, rtol=1e-9) and np.allclose(MON["b2"], MON["a2"] * r_, rtol=1e-9)
                    and not np.allclose(MON["a4"], MON["raw4"], rtol=1e-3)):
                fails.append(fail("pipeline", "set_monitor('fpico6') then set_monitor('fpico6', lambda x: 1e5) on one DataSet: "
                                  "merged intensities scale by %.6g (2-D peaks by %.6g), the reference changed by %.6g" %
                                  (float(np.median(MON["b4"] / MON["a4"])), float(np.median(MON["b2"] / MON["a2"])), r_),
                                  what="monitor"))
        glabel = np.asarray(tbl.glabel)
        frm = np.asarray(tbl.pk_props[4])
        if len(glabel) != len(blobs):
            return [fail("pipeline", "%d 2-D peaks in the table, %d blobs written" % (len(glabel), len(blobs)),
                         what="count")]
        which = []
        for (k, f, r0, c0, amp) in blobs:
            m = (frm == k * nframes + f) & (np.abs(p2["s_raw"] - (r0 + 1)) < 1e-6) & (np.abs(p2["f_raw"] - (c0 + 1)) < 1e-6)
            if m.sum() != 1:
                return [fail("pipeline", "blob (row %d, frame %d, at %d,%d) is not found exactly once among the 2-D "
                             "peaks" % (k, f, r0, c0), what="2d")]
            which.append(int(np.argmax(m)))
        got = glabel[which]
        # ---- oracle: blobs sharing a pixel on frames adjacent in the rotation of one row, or at the same angle
        #      (mod 360, within 0.051 degrees) of consecutive rows, belong together
        n = len(blobs)
        pixsets = [set(zip(*px(b)[:2])) for b in blobs]
        dsu = oracles.DSU(n)

        def link(fa, fb):
            for a in range(n):
                if blobs[a][:2] == fa:
                    for b in range(n):
                        if blobs[b][:2] == fb and pixsets[a] & pixsets[b]:
                            dsu.union(a, b)
        for k in range(nrows):
            oo = np.argsort(omega[k])
            for a, b in zip(oo[:-1], oo[1:]):
                link((k, int(a)), (k, int(b)))
            if k > 0:
                for a in range(nframes):
                    dd = np.abs(omega[k - 1] % 360 - omega[k, a] % 360)
                    b = int(np.argmin(dd))
                    if dd[b] <= 0.051:
                        link((k, a), (k - 1, b))
        roots = [dsu.find(a) for a in range(n)]
        ncomp = len(set(roots))
        pairs = {}
        for a in range(n):
            pairs.setdefault(roots[a], set()).add(int(got[a]))
        if tbl.nlabel != ncomp or sorted(set(got.tolist())) != list(range(ncomp)) or \
                any(len(v) != 1 for v in pairs.values()):
            fails.append(fail("pipeline", "%s rotation, %d rows x %d frames, %d blobs (nproc %d): %d merged peaks with "
                              "labels %s, the overlap graph of the written blobs has %d components" %
                              (case["sweep"], nrows, nframes, n, case["nproc"], tbl.nlabel,
                               sorted(set(got.tolist()))[:12], ncomp), what="labels"))
        else:
            for r in sorted(set(roots)):
                mem = [a for a in range(n) if roots[a] == r]
                lab = int(got[mem[0]])
                npx = 9 * len(mem)
                sI = srI = scI = soI = syI = 0.0
                for a in mem:
                    k, f, r0, c0, amp = blobs[a]
                    rr, cc, vv = px(blobs[a])
                    sI += vv.sum(); srI += (vv * rr).sum(); scI += (vv * cc).sum()
                    soI += vv.sum() * omega[k, f]; syI += vv.sum() * dty[k]
                exp = {"Number_of_pixels": npx, "sum_intensity": sI, "npk2d": len(mem), "s_raw": srI / sI,
                       "f_raw": scI / sI, "omega": soI / sI, "dty": syI / sI}
                for name, val in exp.items():
                    if abs(p4[name][lab] - val) > 1e-9 * max(1.0, abs(val)):
                        fails.append(fail("pipeline", "merged peak %d: %s = %.9g, members give %.9g" %
                                          (lab, name, p4[name][lab], val), what="merge"))
                        break
                if fails:
                    break
        if rec is not None:
            big = max(collections_counter(roots).values())
            rec.case(case, big >= 3, ["pipeline", "sweep:" + case["sweep"]] + (["pipeline:empty_frames"] if case["empty"] else []))
    finally:
        shutil.rmtree(d, ignore_errors=True)
    return fails


def collections_counter(xs):
    import collections
    return collections.Counter(xs)


def run_shard(rec):
    quick = rec.tier == "quick"
    hyp_run(rec, "graphs", cases(20000), lambda c: check(c, rec), max_examples=60 if quick else 600)
    hyp_run(rec, "pipeline", pipecases(), lambda c: check_pipe(c, rec), max_examples=3 if quick else 25, shrink=False)
    if not quick:
        hyp_run(rec, "graphs_large", cases(1000000), lambda c: check(c, rec), max_examples=6, shrink=False)


def replay(sub, case, rec):
    if sub == "pipeline":
        return check_pipe(case, rec)
    return check(case, rec)
