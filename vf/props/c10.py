"""C10 - finite strain tensors are objective, symmetric and exact for known deformations."""
import numpy as np
from hypothesis import strategies as st
from vf import gens
from vf.runner import hyp_run, run_cases, guard, fail, exc_failure

THOROUGH_SCALE = 8      # multiplies every generated-case budget of the thorough tier
RULE = ("reference cell (7 families, triclinic included) x grain rotation R (uniform / identity / axis / small) x "
        "stretch S = Q diag(1+e_i) Q^T with |e_i| drawn at magnitude 1e-6 / 1e-3 / 1e-1 (or S=I) x m in "
        "{-1,-0.5,0,0.5,1,1.5,2} x reference given as cell parameters or as another grain with its own orientation; "
        "UBI = ubi0.S.R^T so that F = R.S exactly; oracle = Seth-Hill tensors from the harness's own "
        "eigendecomposition of S; map cases: stacks of such UBIs with NaN voxels and two phases, both evaluation "
        "orders of eps_crystal/eps_sample; non-trivial = non-cubic reference AND non-identity R AND stretch >= 1e-3; "
        "distinct = hash of the case")
ASSUMPTIONS = ["numpy.linalg.eigh/inv are correct",
               "absolute tolerance 1e-10*(1+|e|max) on tensors (SVD/polar decomposition conditioning)",
               "map paths that rotate an existing tensor use the Busing-Levy U of the strained cell rather than the "
               "polar R (they differ at first order in the strain): asserted to second order only, "
               "|err| <= 2.5*|U-R|_F*|E|_F + 1e-12"]
WARMUP = ["ImageD11.sinograms.tensor_map"]
MS = [-1.0, -0.5, 0.0, 0.5, 1.0, 1.5, 2.0]


def shard_layout(tier):
    return [("opt", None)] * (8 if tier == "quick" else 16)


@st.composite
def deformations(draw):
    fam, cell = draw(gens.cells(families=gens.FAMILIES + ("triclinic", "triclinic", "monoclinic", "pseudo")))
    R = draw(gens.rotations())
    mag = draw(st.sampled_from([0.0, 1e-6, 1e-3, 1e-3, 1e-2, 1e-1, 1e-1]))
    e = [draw(st.floats(-1, 1, allow_nan=False, width=64)) * mag for _ in range(3)]
    Q = draw(gens.rotations())
    refkind = draw(st.sampled_from(["cell", "cell", "grain"]))
    U0 = draw(gens.rotations()) if refkind == "grain" else np.eye(3)
    R2 = draw(gens.rotations())
    return dict(family=fam, cell=[float(x) for x in cell], R=R, e=[float(x) for x in e], Q=Q,
                refkind=refkind, U0=U0, R2=R2)


def seth_hill(evals, Q, m):
    if m == 0:
        d = np.log(evals)
    else:
        d = (evals ** (2 * m) - 1) / (2 * m)
    return (Q * d) @ Q.T


def build(case):
    B0 = gens.busing_levy_B(case["cell"])
    U0 = np.asarray(case["U0"], float)
    ubi0 = np.linalg.inv(U0 @ B0)
    lam = 1 + np.array(case["e"], float)
    Q = np.asarray(case["Q"], float)
    S = (Q * lam) @ Q.T
    R = np.asarray(case["R"], float)
    ubi = ubi0 @ S @ R.T
    return B0, U0, ubi0, lam, Q, S, R, ubi


def tens_close(a, b, scale):
    a = np.asarray(a, float)
    return a.shape == (3, 3) and bool(np.abs(a - b).max() <= 1e-10 * (1 + scale))


def check(case, rec=None):
    from ImageD11 import grain as grainmod, finite_strain
    B0, U0, ubi0, lam, Q, S, R, ubi = build(case)
    emax = float(np.abs(lam - 1).max())
    fails = []
    ok, g = guard(grainmod.grain, ubi)
    if not ok:
        return [exc_failure("grain()", g)]
    if case["refkind"] == "grain":
        ref = grainmod.grain(ubi0)
    else:
        ref = list(case["cell"])
    ubi_b = ubi0 @ S @ np.asarray(case["R2"], float).T      # same stretch, other rotation
    gb = grainmod.grain(ubi_b)
    Es = {}
    for m in MS:
        Eref = seth_hill(lam, Q, m)
        Elab = R @ Eref @ R.T
        Es[m] = Eref
        for name, fn, exp in (("eps_grain_matrix", lambda: g.eps_grain_matrix(ref, m), Eref),
                              ("eps_sample_matrix", lambda: g.eps_sample_matrix(ref, m), Elab)):
            ok, got = guard(fn)
            if not ok:
                fails.append(exc_failure("%s(m=%g)" % (name, m), got))
                continue
            got = np.asarray(got, float)
            if not tens_close(got, exp, emax):
                fails.append(fail("closedform", "%s(m=%g, ref=%s) = %s, closed form %s" % (
                    name, m, case["refkind"], got.ravel(), exp.ravel()), fn=name, m=m))
            if np.abs(got - got.T).max() > 1e-13 * (1 + emax):
                fails.append(fail("symmetry", "%s(m=%g) not symmetric: %g" % (name, m,
                                  np.abs(got - got.T).max()), fn=name, m=m))
            if emax == 0 and np.abs(got).max() > 1e-12:
                fails.append(fail("zero", "%s(m=%g) = %g for an unstrained cell" % (name, m,
                                  np.abs(got).max()), fn=name, m=m))
        # e6 forms
        for name6, namem in (("eps_grain", "eps_grain_matrix"), ("eps_sample", "eps_sample_matrix")):
            ok, e6 = guard(getattr(g, name6), ref, m)
            ok2, M = guard(getattr(g, namem), ref, m)
            if ok and ok2:
                exp6 = np.array([M[0, 0], M[0, 1], M[0, 2], M[1, 1], M[1, 2], M[2, 2]])
                if np.shape(e6) != (6,) or not np.array_equal(np.asarray(e6), exp6):
                    fails.append(fail("e6", "%s(m=%g) is not (e11,e12,e13,e22,e23,e33) of the matrix" %
                                      (name6, m), fn=name6, m=m))
            elif not ok:
                fails.append(exc_failure(name6, e6))
        # objectivity: rotating the grain leaves the grain-frame strain unchanged
        ok, Eb = guard(gb.eps_grain_matrix, ref, m)
        ok2, Ea = guard(g.eps_grain_matrix, ref, m)
        if ok and ok2 and np.abs(np.asarray(Eb) - np.asarray(Ea)).max() > 2e-10 * (1 + emax):
            fails.append(fail("objectivity", "eps_grain_matrix(m=%g) changes by %g when the grain is rotated" %
                              (m, np.abs(np.asarray(Eb) - np.asarray(Ea)).max()), m=m))
    # the reference grain itself is refined in small steps (parts per million) through set_ubi while it is in use as a
    # reference: strains are relative to the matrix it holds now
    if case["refkind"] == "grain":
        D = np.array([[1.0, 0.3, -0.2], [-0.25, 0.7, 0.1], [0.15, -0.1, -0.6]])
        ref2 = grainmod.grain((np.eye(3) + 4e-6 * D) @ ubi0)
        _ = (ref2.UB, ref2.U, ref2.B, ref2.unitcell, ref2.mt)
        guard(g.eps_grain_matrix, ref2, 0.5)
        for eps in (1e-7, 0.0):
            ref2.set_ubi((np.eye(3) + eps * D) @ ubi0)
        for m in MS[:2]:
            ok, got2 = guard(g.eps_grain_matrix, ref2, m)
            if not ok:
                fails.append(exc_failure("eps_grain_matrix (reference updated by set_ubi)", got2))
            elif not tens_close(got2, Es[m], emax):
                fails.append(fail("closedform", "eps_grain_matrix(m=%g) against a reference grain that was updated by "
                                  "4e-6 and 1e-7 through set_ubi after its cell had been read: off by %.3g" %
                                  (m, np.abs(np.asarray(got2, float) - Es[m]).max()), fn="eps_grain_matrix", m=m))
    # first order agreement between all m, on what the library returned
    got = {}
    for m in MS:
        ok, E = guard(g.eps_grain_matrix, ref, m)
        if ok:
            got[m] = np.asarray(E, float)
    for m1 in got:
        for m2 in got:
            if m1 < m2:
                d = np.linalg.norm(got[m1] - got[m2], 2)
                if d > 1.5 * abs(m1 - m2) * emax ** 2 + 1e-10:
                    fails.append(fail("firstorder", "E(m=%g) and E(m=%g) differ by %g > 1.5|dm|e^2 (e=%g)" %
                                      (m1, m2, d, emax), m=m1))
    # the reference matrix from cell parameters (finite_strain.cell_to_B), for two reference cells that differ in the
    # sixth digit (a d0 scan): each gets its own B, and a grain with exactly the reference cell has no strain
    near = [x * (1 + 3e-6) for x in case["cell"][:3]] + list(case["cell"][3:])
    guard(finite_strain.cell_to_B, near)
    ok, Bc = guard(finite_strain.cell_to_B, list(case["cell"]))
    if not ok:
        fails.append(exc_failure("cell_to_B", Bc))
    elif np.abs(np.asarray(Bc, float) - B0).max() > 1e-12 * np.abs(B0).max():
        fails.append(fail("closedform", "cell_to_B(%s) after cell_to_B of a cell 3e-6 larger differs from the B matrix of "
                          "the cell by %.3g (relative)" % (np.round(case["cell"], 6).tolist(),
                                                           np.abs(np.asarray(Bc, float) - B0).max() / np.abs(B0).max()),
                          fn="cell_to_B"))
    # DeformationGradientTensor used directly: one object, both frames, all m, both call orders
    ub0 = U0 @ B0
    for order in ("ref_first", "lab_first"):
        # the two matrices, or (documented) the grain objects that hold them
        asgrains = order == "lab_first" and not np.allclose(U0, np.eye(3)) or (order == "ref_first" and
                                                                                abs(ubi[0, 0]) * 1e3 % 2 < 1)
        if asgrains:
            ok, F = guard(finite_strain.DeformationGradientTensor, grainmod.grain(ubi.copy()), grainmod.grain(ubi0.copy()))
        else:
            ok, F = guard(finite_strain.DeformationGradientTensor, ubi, ub0)
        if not ok:
            fails.append(exc_failure("DeformationGradientTensor", F))
            break
        for m in MS:
            seq = (("ref", F.finite_strain_ref), ("lab", F.finite_strain_lab))
            if order == "lab_first":
                seq = seq[::-1]
            for frame, fn in seq:
                ok, E = guard(fn, m)
                exp = Es[m] if frame == "ref" else R @ Es[m] @ R.T
                if not ok:
                    fails.append(exc_failure("finite_strain_%s" % frame, E))
                elif not tens_close(E, exp, emax):
                    fails.append(fail("closedform", "DeformationGradientTensor.finite_strain_%s(m=%g) (%s) "
                                      "differs from the closed form by %g" % (frame, m, order,
                                      np.abs(np.asarray(E) - exp).max()), fn="finite_strain_" + frame, m=m))
        ok, VRS = guard(lambda: F.VRS)
        if ok:
            V, Rr, Ss = VRS
            if not (tens_close(Rr, R, 1) and tens_close(Ss, S, 1) and tens_close(V, R @ S @ R.T, 1)):
                fails.append(fail("polar", "polar decomposition V,R,S differs from the generating R,S", fn="VRS"))
    if rec is not None:
        noncubic = case["family"] != "cubic"
        nt = noncubic and not np.allclose(R, np.eye(3)) and emax >= 1e-3
        mag = "0" if emax == 0 else "1e%d" % int(np.floor(np.log10(emax) + 1e-9))
        rec.case(dict(case, R=np.asarray(case["R"]), Q=np.asarray(case["Q"]), U0=np.asarray(case["U0"]),
                      R2=np.asarray(case["R2"])), nt,
                 ["family:" + case["family"], "ref:" + case["refkind"], "strain~" + mag])
    return fails


# ------------------------------------------------------------------ maps

@st.composite
def mapcases(draw):
    n = draw(st.integers(1, 4))
    voxels = [draw(deformations()) for _ in range(n)]
    for v in voxels:
        v["refkind"] = "cell"
        v["U0"] = np.eye(3)
    if draw(st.sampled_from([False, False, True])):
        # grains lying exactly along the laboratory axes (a quarter turn about an axis, a cyclic permutation) with
        # an axial strain: UBI has exact zeros, in 16 of the 24 settings the very first element
        import itertools
        sp = [np.array(P) * np.array(sg)[:, None] for P in
              [np.eye(3)[list(pm)] for pm in itertools.permutations(range(3))] for sg in itertools.product((1, -1), repeat=3)]
        sp = [M for M in sp if np.linalg.det(M) > 0]
        for v in voxels:
            a = v["cell"][0]
            v["cell"] = [a, a * 1.25, a * 1.5, 90.0, 90.0, 90.0]
            v["family"] = "orthorhombic"
            v["Q"] = np.eye(3)
            v["R"] = sp[draw(st.integers(0, len(sp) - 1))]
    # two phases: voxel k belongs to phase k % 2, all voxels of a phase share the reference cell
    for k, v in enumerate(voxels):
        v["cell"] = voxels[k % 2]["cell"]
        v["family"] = voxels[k % 2]["family"]
    shape = (draw(st.integers(1, 2)), draw(st.integers(1, 4)), draw(st.integers(1, 4)))
    mseed = draw(st.integers(0, 2 ** 31 - 1))
    nanfrac = draw(st.sampled_from([0.0, 0.3, 0.6]))
    return dict(voxels=voxels, shape=shape, mseed=mseed, nanfrac=nanfrac)


def check_map(case, rec=None):
    from ImageD11.sinograms import tensor_map as tm
    from ImageD11 import unitcell
    fails = []
    shape = tuple(case["shape"])
    rng = np.random.RandomState(case["mseed"] % (2 ** 32))
    vox = case["voxels"]
    built = [build(v) for v in vox]
    which = rng.randint(0, len(vox), shape)
    nan = rng.random_sample(shape) < case["nanfrac"]
    ubi = np.full(shape + (3, 3), np.nan)
    phase = np.full(shape, -1, int)
    for idx in np.ndindex(*shape):
        if not nan[idx]:
            ubi[idx] = built[which[idx]][7]
            phase[idx] = which[idx] % 2
    # phase ids are dictionary keys, not positions: zero based, one based, inserted in reverse, with a gap
    scheme = ["zero", "one", "reverse", "gap"][case["mseed"] % 4]
    ids = {"zero": [0, 1], "one": [1, 2], "reverse": [0, 1], "gap": [3, 7]}[scheme]
    phase = np.where(phase >= 0, np.array(ids)[np.clip(phase, 0, 1)], -1)
    order = list(range(min(2, len(vox))))
    if scheme == "reverse":
        order = order[::-1]
    phases = {}
    for k in order:
        phases[ids[k]] = unitcell.unitcell(vox[k]["cell"], "P")
        phases[ids[k]].name = "phase%d" % k          # as the Phases container names them (to_h5 stores the name)
    exp_c = np.full(shape + (3, 3), np.nan)
    exp_s = np.full(shape + (3, 3), np.nan)
    polarR = np.full(shape + (3, 3), np.nan)
    for idx in np.ndindex(*shape):
        if nan[idx]:
            continue
        B0, U0, ubi0, lam, Q, S, R, _ = built[which[idx]]
        exp_c[idx] = seth_hill(lam, Q, 0.5)
        exp_s[idx] = R @ exp_c[idx] @ R.T
        polarR[idx] = R

    decoys = []

    def newmap():
        if case["mseed"] % 2:
            return tm.TensorMap({"UBI": ubi.copy(), "phase_ids": phase.copy()}, phases=dict(phases))
        # built without the phases argument, reference cells registered afterwards; then a map of another sample
        # registers other cells under the same ids before any strain of the first one is asked for
        m = tm.TensorMap({"UBI": ubi.copy(), "phase_ids": phase.copy()})
        for k_, uc_ in phases.items():
            m.phases[k_] = uc_
        other = tm.TensorMap({"UBI": ubi.copy(), "phase_ids": phase.copy()})
        for k_ in phases:
            other.phases[k_] = unitcell.unitcell([7.1, 8.3, 9.9, 80.0, 95.0, 107.0], "P")
            other.phases[k_].name = "decoy"
        decoys.append(other)
        return m

    def cmp(name, got, exp, bound=None):
        got = np.asarray(got, float)
        if got.shape != exp.shape:
            fails.append(fail("mapshape", "%s has shape %s" % (name, got.shape), route=name))
            return
        if not np.isnan(got[nan]).all():
            fails.append(fail("nan", "%s: masked voxels not NaN" % name, route=name))
        for idx in np.ndindex(*shape):
            if nan[idx]:
                continue
            err = np.abs(got[idx] - exp[idx]).max()
            lim = 1e-10 * (1 + np.abs(exp[idx]).max()) if bound is None else bound[idx]
            if not (err <= lim):
                fails.append(fail("mapvalue", "%s at voxel %s differs from the closed form by %g (limit %g)" %
                                  (name, idx, err, lim), route=name))
                return

    # direct evaluation of each (fresh maps)
    ok, mc = guard(newmap)
    if not ok:
        return [exc_failure("TensorMap()", mc)]
    ok, ec = guard(lambda: mc.eps_crystal)
    if ok:
        cmp("TensorMap.eps_crystal (from UBI)", ec, exp_c)
    else:
        fails.append(exc_failure("TensorMap.eps_crystal", ec))
    ms = newmap()
    ok, es = guard(lambda: ms.eps_sample)
    if ok:
        cmp("TensorMap.eps_sample (from UBI)", es, exp_s)
    else:
        fails.append(exc_failure("TensorMap.eps_sample", es))
    # raw guvectorised functions
    dz = np.full(shape + (6,), np.nan)
    for idx in np.ndindex(*shape):
        if not nan[idx]:
            dz[idx] = vox[which[idx] % 2]["cell"]
    for name, fn, exp in (("ubi_and_unitcell_to_eps_crystal", tm.ubi_and_unitcell_to_eps_crystal, exp_c),
                          ("ubi_and_unitcell_to_eps_sample", tm.ubi_and_unitcell_to_eps_sample, exp_s)):
        ok, v = guard(fn, ubi, dz)
        if ok:
            cmp(name, v, exp)
        else:
            fails.append(exc_failure(name, v))
    # rotate-the-other-tensor paths (second order bound, see ASSUMPTIONS)
    ok, Umap = guard(lambda: mc.U)
    if ok:
        Umap = np.asarray(Umap)
        bound_s = np.zeros(shape)
        for idx in np.ndindex(*shape):
            if not nan[idx]:
                bound_s[idx] = (2.5 * np.linalg.norm(Umap[idx] - polarR[idx]) *
                                np.linalg.norm(exp_c[idx]) + 1e-12)
        ok, es2 = guard(lambda: mc.eps_sample)        # eps_crystal is present: rotation path
        if ok:
            cmp("TensorMap.eps_sample (rotated from eps_crystal)", es2, exp_s, bound_s)
            # and it must be exactly U E U^T of what the map holds
            ref = np.einsum("...ij,...jk,...lk->...il", Umap, np.asarray(mc.eps_crystal), Umap)
            m_ = ~nan
            if m_.any() and np.abs(np.asarray(es2)[m_] - ref[m_]).max() > 1e-12:
                fails.append(fail("rotation", "eps_sample from eps_crystal is not U.E.U^T", route="rot_c2s"))
        else:
            fails.append(exc_failure("TensorMap.eps_sample (rotation path)", es2))
        ok, ec2 = guard(lambda: ms.eps_crystal)       # eps_sample is present: rotation path
        if ok:
            cmp("TensorMap.eps_crystal (rotated from eps_sample)", ec2, exp_c, bound_s)
        else:
            fails.append(exc_failure("TensorMap.eps_crystal (rotation path)", ec2))
        # maps derived from the strain (hydrostatic and deviatoric part): reading them leaves the strain map as it
        # was, and they add up to it
        es_before = np.array(ms.eps_sample, float)
        ok, dv = guard(lambda: (np.array(ms.eps_devia, float), np.array(ms.eps_hydro, float)))
        if not ok:
            fails.append(exc_failure("TensorMap.eps_devia / eps_hydro", dv))
        else:
            es_after = np.array(ms.eps_sample, float)
            if not np.array_equal(es_after, es_before, equal_nan=True):
                fails.append(fail("alias", "TensorMap.eps_sample changes when eps_devia / eps_hydro are read (by up to "
                                  "%.3g)" % np.nanmax(np.abs(es_after - es_before)), route="devia"))
            else:
                m_ = ~nan
                tr = np.trace(dv[0], axis1=-2, axis2=-1)
                if m_.any() and (np.abs(tr[m_]).max() > 1e-12 or
                                 np.abs((dv[0] + dv[1] - es_before)[m_]).max() > 1e-12):
                    fails.append(fail("closedform", "eps_devia + eps_hydro != eps_sample, or eps_devia has a trace",
                                      route="devia"))
        # inverse rotations
        T = rng.standard_normal(shape + (3, 3))
        T[nan] = np.nan
        ok, back = guard(lambda: tm.tensor_sample_to_crystal(tm.tensor_crystal_to_sample(T, Umap), Umap))
        if ok:
            m_ = ~nan
            if m_.any() and np.abs(np.asarray(back)[m_] - T[m_]).max() > 1e-9:
                fails.append(fail("rotinverse", "tensor_sample_to_crystal is not the inverse of "
                                  "tensor_crystal_to_sample", route="rot"))
        else:
            fails.append(exc_failure("tensor rotation", back))
    # ---- a map saved and loaded again: stored strain maps come back as stored, a strain recomputed from the loaded
    #      UBIs and phases agrees to the 6 decimals the reference cells are written with
    if not fails and case["mseed"] % 3 == 0:
        import os
        path = os.path.join(os.environ.get("VERIF_TMP", "."), "c10_tmap_%d.h5" % os.getpid())
        try:
            if os.path.exists(path):
                os.remove(path)
            ok, e = guard(ms.to_h5, path)
            if ok:
                ok, m2 = guard(tm.TensorMap.from_h5, path)
            if not ok:
                fails.append(exc_failure("TensorMap.to_h5/from_h5", e if not isinstance(e, type(None)) else m2))
            else:
                if sorted(m2.phases) != sorted(phases):
                    fails.append(fail("reload", "phase ids %s saved, %s loaded" % (sorted(phases), sorted(m2.phases)),
                                      route="h5"))
                else:
                    m_ = ~nan
                    es3 = np.asarray(m2.eps_sample)
                    if m_.any() and not np.array_equal(es3[m_], np.asarray(ms.eps_sample)[m_]):
                        fails.append(fail("reload", "eps_sample stored in the file differs after loading", route="h5"))
                    m3 = tm.TensorMap({"UBI": np.asarray(m2.UBI).copy(), "phase_ids": np.asarray(m2.phase_ids).copy()},
                                      phases=dict(m2.phases))
                    ok, ec3 = guard(lambda: m3.eps_crystal)
                    if ok:
                        loose = np.full(shape, 2e-5)
                        cmp("TensorMap.eps_crystal recomputed from a saved and loaded map", ec3, exp_c, loose)
                    else:
                        fails.append(exc_failure("eps_crystal after from_h5", ec3))
        finally:
            if os.path.exists(path):
                os.remove(path)
    if rec is not None:
        big = any(np.abs(np.array(v["e"])).max() >= 1e-3 for v in vox)
        nc = any(v["family"] != "cubic" for v in vox)
        c = dict(case, voxels=[dict(family=v["family"], cell=v["cell"], e=v["e"]) for v in vox])
        rec.case(c, big and nc and nan.any() and (~nan).any(), ["map", "nanfrac:%g" % case["nanfrac"], "phase_ids:" + scheme])
    return fails


# ------------------------------------------------------------------ mono-phase maps combined into one

@st.composite
def combinecases(draw):
    n = draw(st.integers(2, 3))
    voxels = [draw(deformations()) for _ in range(n)]
    for v in voxels:
        v["refkind"] = "cell"
        v["U0"] = np.eye(3)
    shape = (draw(st.integers(1, 2)), draw(st.integers(2, 5)), draw(st.integers(2, 5)))
    mseed = draw(st.integers(0, 2 ** 31 - 1))
    fill = draw(st.sampled_from([0.3, 0.6, 0.9]))
    return dict(voxels=voxels, shape=shape, mseed=mseed, fill=fill)


def check_combine(case, rec=None):
    """TensorMap.from_combine_phases: wherever several inputs fill a voxel one of them wins, and everything stored for
    that voxel (phase id, UBI, label) comes from the winner, so the strain is that of the winner's crystal with
    respect to the winner's reference cell."""
    from ImageD11.sinograms import tensor_map as tm
    from ImageD11 import unitcell
    shape = tuple(case["shape"])
    rng = np.random.RandomState(case["mseed"] % (2 ** 32))
    vox = case["voxels"]
    built = [build(v) for v in vox]
    maps, filled = [], []
    for k, v in enumerate(vox):
        f = rng.random_sample(shape) < case["fill"]
        ubi = np.full(shape + (3, 3), np.nan)
        ubi[f] = built[k][7]
        ph = np.where(f, 0, -1)
        lab = np.where(f, rng.randint(0, 3, shape), -1)
        uc = unitcell.unitcell(v["cell"], "P")
        uc.name = "phase%d" % k
        ok, m = guard(tm.TensorMap, {"UBI": ubi, "phase_ids": ph, "labels": lab}, phases={0: uc})
        if not ok:
            return [exc_failure("TensorMap()", m)]
        maps.append(m)
        filled.append(f)
    ok, cm = guard(tm.TensorMap.from_combine_phases, maps)
    if not ok:
        return [exc_failure("from_combine_phases", cm)]
    fails = []
    overlap = np.sum(filled, axis=0) >= 2
    cph = np.asarray(cm.phase_ids)
    cubi = np.asarray(cm.UBI)
    for idx in np.ndindex(*shape):
        owners = [k for k in range(len(maps)) if filled[k][idx]]
        if not owners:
            if cph[idx] != -1 or not np.isnan(cubi[idx]).all():
                fails.append(fail("combine", "voxel %s is empty in every input but phase id %s in the combination" %
                                  (idx, cph[idx]), what="empty"))
                break
            continue
        w = int(cph[idx])
        if w not in owners:
            fails.append(fail("combine", "voxel %s: phase id %d, inputs filling it are %s" % (idx, w, owners),
                              what="phase"))
            break
        if not np.array_equal(cubi[idx], built[w][7]):
            fails.append(fail("combine", "voxel %s filled by inputs %s: phase id says input %d, the UBI stored is that of "
                              "another input" % (idx, owners, w), what="ubi"))
            break
    if not fails:
        ok, ec = guard(lambda: cm.eps_crystal)
        if not ok:
            fails.append(exc_failure("eps_crystal of the combined map", ec))
        else:
            ec = np.asarray(ec, float)
            for idx in np.ndindex(*shape):
                if cph[idx] < 0:
                    continue
                B0, U0, ubi0, lam, Q, S, R, _ = built[int(cph[idx])]
                exp = seth_hill(lam, Q, 0.5)
                err = np.abs(ec[idx] - exp).max()
                if not err <= 1e-10 * (1 + np.abs(exp).max()):
                    fails.append(fail("combine", "combined map, voxel %s (inputs %s): eps_crystal differs from the "
                                      "closed form for phase %d by %g" %
                                      (idx, [k for k in range(len(maps)) if filled[k][idx]], cph[idx], err), what="eps"))
                    break
        labs = np.asarray(cm.labels)
        for k in range(len(maps)):
            mine = cph == k
            other = (cph >= 0) & ~mine
            if mine.any() and other.any() and np.intersect1d(labs[mine], labs[other]).size:
                fails.append(fail("combine", "grain labels of different phases collide in the combined map", what="labels"))
                break
    if rec is not None:
        rec.case(dict(case, voxels=[dict(family=v["family"], cell=v["cell"], e=v["e"]) for v in vox]), bool(overlap.any()),
                 ["combine", "overlap" if overlap.any() else "disjoint"])
    return fails


def run_shard(rec):
    quick = rec.tier == "quick"
    hyp_run(rec, "grain", deformations(), lambda c: check(c, rec), max_examples=150 if quick else 1500)
    hyp_run(rec, "map", mapcases(), lambda c: check_map(c, rec), max_examples=50 if quick else 400)
    hyp_run(rec, "combine", combinecases(), lambda c: check_combine(c, rec), max_examples=30 if quick else 300)


def replay(sub, case, rec):
    if sub == "combine":
        return check_combine(case, rec)
    return check_map(case, rec) if sub == "map" else check(case, rec)
