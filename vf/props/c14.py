"""C14 - sparse images round-trip and overlap counting is exact."""
import collections
import numpy as np
from hypothesis import strategies as st
from vf import gens
from vf.runner import hyp_run, run_cases, guard, fail, exc_failure, snapshot, written

THOROUGH_SCALE = 5      # multiplies every generated-case budget of the thorough tier
RULE = ("dense images uint16/uint32/float32, shapes 1x1..64x64 (plus 2x65534 and 65534x2 in the thorough tier) x "
        "masks from 11 structured kinds / single pixel / first or last row or column only / full x cuts at, between "
        "and outside the pixel values x optional detector mask; round trip through from_data_mask / from_data_cut / "
        "raw tosparse kernels, sortedness, permuted frames re-sorted, sparse_is_sorted return code on corrupted "
        "index lists; overlaps: two label images on one grid (1..N labels: disjoint, identical, partial, label at "
        "capacity, last pixels coinciding) through overlaps_linear, overlaps_matrix, overlaps() and the raw kernels "
        "against a dense Counter; segmenter: dense uint16/uint32 frames in an HDF5 file through lima_segmenter.segment_lima (cut, pixels_in_spot 1-3, detector mask) read back with SparseScan against numpy selection + scipy blob sizes; also on 70 000 - 200 000 pixel frames where one label pair shares more than 65535 pixels (overlaps_big); scan level: in-memory SparseScan objects through sinograms.properties.props / pairrow / pairscans (2-D peak table and overlaps between omega-adjacent frames and between two scan rows) against per-component sums and dense counts; non-trivial = nnz >= 2 on >= 2 rows (round trip) or >= 2 overlapping label pairs "
        "sharing a label (overlaps); distinct = hash of the case")
WARMUP = ["ImageD11.sinograms.properties"]
ASSUMPTIONS = ["empty selections are excluded: the library represents an empty frame as None (mask_to_coo returns 3)",
               "labels are 1..N with no zero label, as the overlap routines document"]


def shard_layout(tier):
    return [("opt", None)] * (8 if tier == "quick" else 16)


# ------------------------------------------------------------------ round trip

@st.composite
def rtcases(draw, maxdim=64):
    spec = draw(gens.image_specs(maxdim=maxdim, mindim=1))
    maskkind = draw(st.sampled_from(["pattern", "pattern", "pattern", "single", "firstrow", "lastrow", "firstcol",
                                     "lastcol", "full", "corners"]))
    dtype = draw(st.sampled_from(["uint16", "uint32", "float32"]))
    cutpos = draw(st.sampled_from(["zero", "between", "at", "below", "frac_hi", "frac_lo"]))
    detmask = draw(st.booleans())
    menc = draw(st.sampled_from(["bool", "bool", "int8_01", "int8_02", "uint8_255", "int32_labels"]))
    return dict(spec=spec, maskkind=maskkind, dtype=dtype, cutpos=cutpos, detmask=detmask, menc=menc)


def build_mask(case):
    spec = case["spec"]
    ns, nf = spec["ns"], spec["nf"]
    rng = np.random.RandomState((spec["seed"] + 17) % (2 ** 32))
    k = case["maskkind"]
    if k == "pattern":
        m = gens.image_from_spec(spec).astype(bool)
    else:
        m = np.zeros((ns, nf), bool)
        if k == "single":
            m[rng.randint(ns), rng.randint(nf)] = True
        elif k == "firstrow":
            m[0, :] = rng.random_sample(nf) < 0.7
            m[0, -1] = True
        elif k == "lastrow":
            m[-1, :] = rng.random_sample(nf) < 0.7
            m[-1, 0] = True
        elif k == "firstcol":
            m[:, 0] = True
        elif k == "lastcol":
            m[:, -1] = True
        elif k == "full":
            m[:] = True
        elif k == "corners":
            m[0, 0] = m[0, -1] = m[-1, 0] = m[-1, -1] = True
    if not m.any():
        m[rng.randint(ns), rng.randint(nf)] = True
    data = rng.randint(1, 5, (ns, nf)) * 100
    if case["dtype"] == "uint32":
        # above the 16 bit range; one case in three each just above 2^24 and 2^31, with neighbouring levels one count
        # apart (single precision cannot tell them apart, the integer kernel must)
        big = [0, 2 ** 24, 2 ** 31][spec["seed"] % 3]
        data = data + 70000 if big == 0 else big + rng.randint(0, 4, (ns, nf)).astype(np.int64)
    return m, data.astype(case["dtype"])


def first_offence(i, j):
    es = ed = None
    for k in range(1, len(i)):
        if i[k] < i[k - 1] or (i[k] == i[k - 1] and j[k] < j[k - 1]):
            es = k if es is None else es
        elif i[k] == i[k - 1] and j[k] == j[k - 1]:
            ed = k if ed is None else ed
    if es is None and ed is None:
        return 0
    if ed is None or (es is not None and es < ed):
        return es
    return -ed


def check_rt(case, rec=None):
    from ImageD11 import sparseframe, cImageD11
    mask, data = build_mask(case)
    ns, nf = mask.shape
    fails = []
    exp_dense = np.where(mask, data, 0).astype(data.dtype)
    ei, ej = np.nonzero(mask)
    # ---- from_data_mask
    # the mask as callers encode it: boolean, 0/1, 0/2, 0/255 or a label image (anything > 0 selects)
    enc = case.get("menc", "bool")
    if enc == "bool":
        menc = mask
    elif enc == "int8_01":
        menc = mask.astype(np.int8)
    elif enc == "int8_02":
        menc = mask.astype(np.int8) * 2
    elif enc == "uint8_255":
        menc = mask.astype(np.uint8) * 255
    else:
        menc = np.where(mask, 1 + (np.arange(mask.size).reshape(mask.shape) % 5), 0).astype(np.int32)
    ok, fr = guard(sparseframe.from_data_mask, menc, data, {"k": 1})
    if not ok:
        return [exc_failure("from_data_mask", fr)]

    def frame_ok(fr, name, expmask, expdense):
        ri, rj = np.nonzero(expmask)
        if fr.nnz != len(ri) or not np.array_equal(fr.row, ri) or not np.array_equal(fr.col, rj):
            fails.append(fail("coords", "%s: coordinates are not the selected pixels in row-major order "
                              "(nnz %d, expected %d)" % (name, fr.nnz, len(ri)), fn=name))
            return
        if fr.row.dtype != np.uint16:
            fails.append(fail("dtype", "%s: index dtype %s" % (name, fr.row.dtype), fn=name))
        ok, d = guard(fr.to_dense, "intensity")
        if not ok:
            fails.append(exc_failure(name + ".to_dense", d))
        elif d.shape != expdense.shape or not np.array_equal(d, expdense):
            fails.append(fail("roundtrip", "%s: to_dense differs from where(mask,data,0) at %d pixels" %
                              (name, int((np.asarray(d) != expdense).sum())), fn=name))
        # a caller-supplied output image (re-used from frame to frame, or np.empty) must come back as the frame alone
        buf = np.full(expdense.shape, 7, fr.pixels["intensity"].dtype)
        ok, d2 = guard(fr.to_dense, "intensity", buf)
        if not ok:
            fails.append(exc_failure(name + ".to_dense(out=)", d2))
        elif not (np.array_equal(d2, expdense) and np.array_equal(buf, expdense)):
            fails.append(fail("roundtrip", "%s: to_dense(out=buffer holding other values) differs from where(mask,data,0) "
                              "at %d pixels" % (name, int((np.asarray(buf) != expdense).sum())), fn=name + ".out"))
        if fr.pixels["intensity"].dtype != expdense.dtype:
            fails.append(fail("dtype", "%s: pixel dtype %s, data %s" % (name, fr.pixels["intensity"].dtype,
                                                                        expdense.dtype), fn=name))
        ok, s = guard(cImageD11.sparse_is_sorted, fr.row, fr.col)
        if ok and s != 0:
            fails.append(fail("sorted", "%s: sparse_is_sorted returns %d" % (name, s), fn=name))
        ok, e = guard(fr.is_sorted)
        if not ok:
            fails.append(fail("sorted", "%s: is_sorted() raised %s" % (name, e), fn=name))
    frame_ok(fr, "from_data_mask", mask, exp_dense)
    # ---- from_data_cut (u16 / f32) and raw tosparse kernels (incl. u32)
    levels = np.unique(data)
    cut = {"zero": 0, "below": 0, "between": int(levels[0]) + 50 if len(levels) > 1 else int(levels[0]) - 50,
           "at": int(levels[0]),
           # a threshold from statistics (mean + n sigma) is not a whole number: just below / well below a level
           "frac_hi": float(levels[0]) - 0.25, "frac_lo": float(levels[0]) - 0.75}[case["cutpos"]]
    if case["dtype"] == "uint32" and int(levels[0]) >= 2 ** 24 and case["cutpos"] in ("between", "at", "frac_hi", "frac_lo"):
        cut = 2 ** 24 if int(levels[0]) < 2 ** 31 else 2 ** 31       # the cut travels as a C float: keep it representable
    dm = None
    if case["detmask"]:
        dm = (np.random.RandomState(case["spec"]["seed"] % 1000).random_sample(mask.shape) < 0.8).astype(np.uint8)
    data_c = data
    if case["dtype"] == "float32" and case["spec"]["seed"] % 3 == 0:
        # detector images after flat-field division: a few NaN / inf pixels; NaN is not above any cut
        data_c = data.copy()
        rs = np.random.RandomState((case["spec"]["seed"] + 17) % (2 ** 32))
        for bad in (np.nan, np.inf, -np.inf, np.nan):
            data_c[rs.randint(data.shape[0]), rs.randint(data.shape[1])] = bad
    with np.errstate(invalid="ignore"):
        sel = (data_c > cut) & (dm.astype(bool) if dm is not None else True)
    if sel.any():
        if case["dtype"] in ("uint16", "float32"):
            ok, fc = guard(sparseframe.from_data_cut, data_c, cut, {}, dm)
            if not ok:
                fails.append(exc_failure("from_data_cut", fc))
            else:
                frame_ok(fc, "from_data_cut", sel, np.where(sel, data_c, 0).astype(data.dtype))
        kern = {"uint16": "tosparse_u16", "uint32": "tosparse_u32", "float32": "tosparse_f32"}[case["dtype"]]
        row = np.full(data.shape, 9, np.uint16)
        col = np.full(data.shape, 9, np.uint16)
        val = np.full(data.shape, 9, data.dtype)
        m8 = dm if dm is not None else np.ones(data.shape, np.uint8)
        ok, nnz = guard(getattr(cImageD11, kern), data_c, m8, row, col, val, cut)
        if not ok:
            fails.append(exc_failure(kern, nnz))
        else:
            ri, rj = np.nonzero(sel)
            if nnz != len(ri) or not np.array_equal(row.ravel()[:nnz], ri) or \
                    not np.array_equal(col.ravel()[:nnz], rj) or not np.array_equal(val.ravel()[:nnz], data_c[sel]):
                fails.append(fail("tosparse", "%s: returned pixels differ from data>cut under the mask (nnz %s, "
                                  "expected %d)" % (kern, nnz, len(ri)), fn=kern))
    elif rec is not None:
        rec.exclude("cut selects no pixel (an empty frame is represented as None)")
    # ---- unsorted frame: permute, sort, values stay attached
    if fr.nnz >= 1:
        rng = np.random.RandomState((case["spec"]["seed"] + 5) % (2 ** 32))
        perm = rng.permutation(fr.nnz)
        vals = data[mask]
        other = np.arange(fr.nnz, dtype=np.int32) * 3
        if vals.dtype == np.uint16 and case["spec"]["seed"] % 2:
            # coordinates and values as the three columns of one (nnz, 3) table (a record per pixel): interleaved in
            # memory, no element shared
            tab_ = np.ascontiguousarray(np.column_stack([ei[perm], ej[perm], vals[perm]]).astype(np.uint16))
            fu = sparseframe.sparse_frame(tab_[:, 0], tab_[:, 1], mask.shape,
                                          pixels={"intensity": tab_[:, 2], "tag": other[perm].copy()})
        else:
            fu = sparseframe.sparse_frame(ei[perm].astype(np.uint16), ej[perm].astype(np.uint16), mask.shape,
                                          pixels={"intensity": vals[perm].copy(), "tag": other[perm].copy()})
        code = cImageD11.sparse_is_sorted(fu.row, fu.col)
        expcode = first_offence(fu.row.astype(int), fu.col.astype(int))
        if code != expcode:
            fails.append(fail("is_sorted_code", "sparse_is_sorted returned %d for a permuted frame, documented "
                              "value %d" % (code, expcode), fn="sparse_is_sorted"))
        ok, e = guard(fu.sort)
        if not ok:
            fails.append(exc_failure("sparse_frame.sort", e))
        else:
            if not (np.array_equal(fu.row, ei) and np.array_equal(fu.col, ej)):
                fails.append(fail("sort", "sort() does not establish row-major order", fn="sort"))
            elif not (np.array_equal(fu.pixels["intensity"], vals) and np.array_equal(fu.pixels["tag"], other)):
                fails.append(fail("sort", "sort() detached pixel values from their coordinates", fn="sort"))
        # sort_by a pixel array, then sort back
        ok, e = guard(fu.sort_by, "tag")
        if not ok:
            fails.append(exc_failure("sparse_frame.sort_by", e))
        elif not np.array_equal(fu.pixels["tag"], np.sort(other)) or \
                not np.array_equal(fu.to_dense("intensity"), exp_dense):
            fails.append(fail("sort", "sort_by() lost the association of pixels and coordinates", fn="sort_by"))
        # duplicates: documented negative return
        if fr.nnz >= 2:
            di = np.concatenate([ei[:1], ei]).astype(np.uint16)
            dj = np.concatenate([ej[:1], ej]).astype(np.uint16)
            code = cImageD11.sparse_is_sorted(di, dj)
            if code != first_offence(di.astype(int), dj.astype(int)):
                fails.append(fail("is_sorted_code", "sparse_is_sorted returned %d for a duplicated first pixel, "
                                  "documented value %d" % (code, first_offence(di.astype(int), dj.astype(int))),
                                  fn="sparse_is_sorted"))
        # mask() / threshold() subsets
        keep = rng.random_sample(fr.nnz) < 0.5
        if keep.any():
            ok, sub = guard(fr.mask, keep)
            if not ok:
                fails.append(exc_failure("sparse_frame.mask", sub))
            else:
                m2 = np.zeros(mask.shape, bool)
                m2[ei[keep], ej[keep]] = True
                frame_ok(sub, "sparse_frame.mask", m2, np.where(m2, data, 0).astype(data.dtype))
    if rec is not None:
        rows = len(np.unique(ei))
        rec.case(case, len(ei) >= 2 and rows >= 2, ["rt:" + case["dtype"], "mask:" + case["maskkind"],
                                                     "maskenc:" + case.get("menc", "bool")])
    return fails


# ------------------------------------------------------------------ overlaps

@st.composite
def ovcases(draw):
    ns = draw(st.integers(1, 40))
    nf = draw(st.integers(1, 40))
    seed = draw(st.integers(0, 2 ** 31 - 1))
    n1 = draw(st.integers(1, 12))
    n2 = draw(st.integers(1, 12))
    relation = draw(st.sampled_from(["random", "random", "identical", "disjoint", "lastpixel", "shifted"]))
    fill = draw(st.sampled_from([0.1, 0.4, 0.9]))
    slack = draw(st.sampled_from([0, 0, 3]))       # npk given to the routines beyond the largest label
    spread = draw(st.sampled_from(["none", "none", "rows", "cols", "both"]))
    return dict(ns=ns, nf=nf, seed=seed, n1=n1, n2=n2, relation=relation, fill=fill, slack=slack, spread=spread)


@st.composite
def ovbigcases(draw):
    """two or three labels on frames of 70 000 .. 200 000 pixels: a pair of labels shares more pixels than a 16 bit
    count holds"""
    ns = draw(st.integers(257, 420))
    nf = draw(st.integers(280, 480))
    return dict(ns=ns, nf=nf, seed=draw(st.integers(0, 2 ** 31 - 1)), n1=draw(st.integers(1, 2)),
                n2=draw(st.integers(1, 2)), relation=draw(st.sampled_from(["random", "identical", "shifted"])),
                fill=draw(st.sampled_from([0.97, 1.0])), slack=0, spread="none")


def build_ov(case):
    rng = np.random.RandomState(case["seed"] % (2 ** 32))
    shape = (case["ns"], case["nf"])
    L1 = np.where(rng.random_sample(shape) < case["fill"], rng.randint(1, case["n1"] + 1, shape), 0)
    rel = case["relation"]
    if rel == "identical":
        L2 = np.where(L1 > 0, (L1 - 1) % case["n2"] + 1, 0)     # same pixels, labels within 1..n2
    elif rel == "disjoint":
        L2 = np.where((L1 == 0) & (rng.random_sample(shape) < case["fill"]), rng.randint(1, case["n2"] + 1, shape), 0)
    elif rel == "shifted":
        L2 = np.roll(L1, 1, axis=1)
        L2 = np.where(L2 > 0, (L2 - 1) % case["n2"] + 1, 0)
    else:
        L2 = np.where(rng.random_sample(shape) < case["fill"], rng.randint(1, case["n2"] + 1, shape), 0)
    if rel == "lastpixel":
        L1[-1, -1] = case["n1"]
        L2[-1, -1] = case["n2"]
    if not L1.any():
        L1[0, 0] = 1
    if not L2.any():
        L2[-1, -1] = 1
    # largest label present so that "label == capacity" is exercised
    L1[np.nonzero(L1)[0][0], np.nonzero(L1)[1][0]] = case["n1"]
    L2[np.nonzero(L2)[0][-1], np.nonzero(L2)[1][-1]] = case["n2"]
    return L1.astype(np.int32), L2.astype(np.int32)


def check_ov(case, rec=None):
    from ImageD11 import sparseframe, cImageD11
    L1, L2 = build_ov(case)
    n1 = case["n1"] + case["slack"]
    n2 = case["n2"] + case["slack"]
    both = (L1 > 0) & (L2 > 0)
    exp = collections.Counter(zip(L1[both].tolist(), L2[both].tolist()))
    fails = []

    def coo(L):
        i, j = np.nonzero(L)
        return i.astype(np.uint16), j.astype(np.uint16), L[L > 0].astype(np.int32)
    r1, c1, l1 = coo(L1)
    r2, c2, l2 = coo(L2)
    # the same patterns on a detector as large as the 16 bit indices allow: rows / columns spread monotonically over
    # 0..65533, with neighbours on both sides of 32768 (order and coincidences are unchanged)
    bigshape = list(L1.shape)
    rs = np.random.RandomState((case["seed"] + 41) % (2 ** 32))
    for axis, on in ((0, case.get("spread") in ("rows", "both")), (1, case.get("spread") in ("cols", "both"))):
        if on:
            n = L1.shape[axis]
            special = np.array([0, 32767, 32768, 65533])
            m = np.unique(np.concatenate([special[:min(n, 4)], rs.randint(0, 65534, n)]))
            while len(m) < n:
                m = np.unique(np.concatenate([m, rs.randint(0, 65534, n)]))
            m = np.sort(rs.permutation(m)[:n]) if len(m) > n else m
            if n >= 2 and not ((m < 32768).any() and (m >= 32768).any()):
                m[0], m[-1] = min(m[0], 32767), max(m[-1], 32768)
                m = np.sort(m)
            if axis == 0:
                r1, r2 = m[r1].astype(np.uint16), m[r2].astype(np.uint16)
            else:
                c1, c2 = m[c1].astype(np.uint16), m[c2].astype(np.uint16)
            bigshape[axis] = 65534          # the largest shape a uint16 indexed frame accepts
    bigshape = tuple(bigshape)
    snap = snapshot(r1=r1, c1=c1, l1=l1, r2=r2, c2=c2, l2=l2)

    def cmp(name, n, rcl):
        got = collections.Counter()
        if n:
            rcl = np.asarray(rcl)
            if rcl.shape != (n, 3):
                fails.append(fail("shape", "%s: result shape %s for %d overlaps" % (name, rcl.shape, n), fn=name))
                return
            for a, b, c in rcl.tolist():
                if (a, b) in got:
                    fails.append(fail("dup_pair", "%s: label pair (%d,%d) listed twice" % (name, a, b), fn=name))
                got[(a, b)] += c
        if got != exp:
            miss = set(exp) - set(got)
            extra = set(got) - set(exp)
            wrong = [k for k in exp if k in got and got[k] != exp[k]]
            fails.append(fail("overlaps", "%s: %d pairs expected, %d returned; missing %s extra %s wrong counts %s" %
                              (name, len(exp), len(got), sorted(miss)[:3], sorted(extra)[:3],
                               [(k, got[k], exp[k]) for k in wrong[:3]]), fn=name))
    ol = sparseframe.overlaps_linear(nnzmax=max(len(r1), len(r2), n1, n2) + 1)
    ok, r = guard(ol, r1, c1, l1, n1, r2, c2, l2, n2)
    if ok:
        cmp("overlaps_linear", r[0], r[1])
    else:
        fails.append(exc_failure("overlaps_linear", r))
    # a too-small cache must be re-allocated transparently
    ol2 = sparseframe.overlaps_linear(nnzmax=1)
    ok, r = guard(ol2, r1, c1, l1, n1, r2, c2, l2, n2)
    if ok:
        cmp("overlaps_linear(realloc)", r[0], r[1])
    else:
        fails.append(exc_failure("overlaps_linear(realloc)", r))
    om = sparseframe.overlaps_matrix(npkmax=max(n1, n2))
    ok, r = guard(om, r1, c1, l1, n1, r2, c2, l2, n2)
    if ok:
        cmp("overlaps_matrix", r[0], r[1])
    else:
        fails.append(exc_failure("overlaps_matrix", r))
    om2 = sparseframe.overlaps_matrix(npkmax=1)
    ok, r = guard(om2, r1, c1, l1, n1, r2, c2, l2, n2)
    if ok:
        cmp("overlaps_matrix(realloc)", r[0], r[1])
    else:
        fails.append(exc_failure("overlaps_matrix(realloc)", r))
    for nm in written(snap, r1=r1, c1=c1, l1=l1, r2=r2, c2=c2, l2=l2):
        fails.append(fail("inputs", "the overlap routines modified the %s array they were given" % nm, fn="inputs"))
    # overlaps() on frames
    f1 = sparseframe.sparse_frame(r1, c1, bigshape, pixels={"lab": l1.copy()})
    f1.meta["lab"] = {"nlabel": n1}
    f2 = sparseframe.sparse_frame(r2, c2, bigshape, pixels={"lab": l2.copy()})
    f2.meta["lab"] = {"nlabel": n2}
    ok, ce = guard(sparseframe.overlaps, f1, "lab", f2, "lab")
    if ok:
        ce = ce.tocoo()
        if ce.shape != (n1, n2):
            fails.append(fail("shape", "overlaps(): matrix shape %s, expected %s" % (ce.shape, (n1, n2)),
                              fn="overlaps"))
        cmp("overlaps()", len(ce.data), np.column_stack([ce.row + 1, ce.col + 1, ce.data]) if len(ce.data) else None)
    elif len(exp) > 0:
        fails.append(exc_failure("overlaps()", ce))
    # raw kernels with poisoned outputs
    k1 = np.full(len(r1), -5, np.int32)
    k2 = np.full(len(r2), -5, np.int32)
    ok, npx = guard(cImageD11.sparse_overlaps, r1, c1, k1, r2, c2, k2)
    if ok:
        if npx != int(both.sum()):
            fails.append(fail("sparse_overlaps", "sparse_overlaps returned %d shared pixels, expected %d" %
                              (npx, int(both.sum())), fn="sparse_overlaps"))
        elif npx and not (np.array_equal(r1[k1[:npx]], r2[k2[:npx]]) and np.array_equal(c1[k1[:npx]], c2[k2[:npx]])):
            fails.append(fail("sparse_overlaps", "k1/k2 do not address the same pixels", fn="sparse_overlaps"))
        elif (k1[npx:] != 0).any() or (k2[npx:] != 0).any():
            fails.append(fail("sparse_overlaps", "k1/k2 beyond the hits are not zeroed", fn="sparse_overlaps"))
    else:
        fails.append(exc_failure("sparse_overlaps", npx))
    if rec is not None:
        share = collections.Counter(a for a, b in exp)
        nt = len(exp) >= 2 and (max(share.values()) >= 2 if share else False)
        rec.case(case, nt, ["ov:" + case["relation"]] + (["no_overlap"] if not exp else []))
    return fails


# ------------------------------------------------------------------ dense detector file -> segmenter -> sparse file

@st.composite
def segcases(draw):
    return dict(nfr=draw(st.integers(1, 9)), ns=draw(st.integers(6, 40)), nf=draw(st.integers(6, 56)),
                seed=draw(st.integers(0, 2 ** 31 - 1)), cut=draw(st.sampled_from([0, 5, 100])),
                pixels_in_spot=draw(st.sampled_from([1, 1, 3, 2])), masked=draw(st.booleans()),
                dtype=draw(st.sampled_from(["uint16", "uint16", "uint32"])), empty=draw(st.booleans()))


def check_seg(case, rec=None):
    """frames in a detector HDF5 file, segmented by sinograms.lima_segmenter.segment_lima into the sparse file layout,
    read back frame by frame with SparseScan: exactly the pixels above the cut, on active pixels, in blobs of at least
    pixels_in_spot pixels (8-connected), each with its own value"""
    import os, io, contextlib, h5py
    from scipy import ndimage
    from ImageD11 import sparseframe, cImageD11
    from ImageD11.sinograms import lima_segmenter
    rng = np.random.RandomState(case["seed"] % (2 ** 32))
    nfr, ns, nf = case["nfr"], case["ns"], case["nf"]
    frames = np.zeros((nfr, ns, nf), case["dtype"])
    for k in range(nfr):
        if case["empty"] and k == nfr // 2:
            continue
        for _ in range(rng.randint(1, 7)):
            r, c = rng.randint(0, ns), rng.randint(0, nf)
            h, w = rng.randint(1, 4), rng.randint(1, 4)
            frames[k, r:r + h, c:c + w] = rng.randint(1, 2000, size=frames[k, r:r + h, c:c + w].shape)
        frames[k][rng.random_sample((ns, nf)) < 0.02] = rng.randint(1, 300)
    mask = None
    if case["masked"]:
        mask = np.ones((ns, nf), np.uint8)
        mask[:, rng.randint(0, nf)] = 0
        mask[rng.randint(0, ns), :] = 0
    tmp = os.environ.get("VERIF_TMP", ".")
    src = os.path.join(tmp, "c14_seg_src_%d.h5" % os.getpid())
    dst = os.path.join(tmp, "c14_seg_dst_%d.h5" % os.getpid())
    for f in (src, dst):
        if os.path.exists(f):
            os.remove(f)
    dsname = "1.1/measurement/eiger"
    with h5py.File(src, "w") as h:
        h[dsname] = frames
    fails = []

    def run():
        opts = lima_segmenter.SegmenterOptions(cut=case["cut"], pixels_in_spot=case["pixels_in_spot"])
        opts.setup()
        opts.mask = None if mask is None else mask.copy()
        lima_segmenter.OPTIONS = opts
        with contextlib.redirect_stdout(io.StringIO()):
            lima_segmenter.segment_lima((src, dst, dsname))
        return sparseframe.SparseScan(dst, dsname)
    ok, scan = guard(run)
    if not ok:
        if isinstance(scan, OSError) and "filter returned failure" in str(scan):
            if rec is not None:
                rec.exclude("h5py/HDF5 lzf read failure of this sandbox (see tools/h5py_lzf_overwrite.py)")
        else:
            fails.append(exc_failure("lima_segmenter.segment_lima / SparseScan", scan))
    else:
        s8 = np.ones((3, 3), int)
        kept = 0
        for k in range(nfr):
            sel = frames[k] > case["cut"]
            if mask is not None:
                sel &= mask > 0
            if case["pixels_in_spot"] > 1 and sel.any():
                lab, n = ndimage.label(sel, structure=s8)
                size = np.bincount(lab.ravel(), minlength=n + 1)
                sel &= size[lab] >= case["pixels_in_spot"]
            exp = np.where(sel, frames[k], 0).astype(np.float64)
            kept += int(sel.sum())
            ok, fr = guard(scan.getframe, k)
            if not ok:
                fails.append(exc_failure("SparseScan.getframe", fr))
                break
            if fr is None:
                if sel.any():
                    fails.append(fail("segmenter", "frame %d of %d: nothing stored, %d pixels expected (cut %g, "
                                      "pixels_in_spot %d)" % (k, nfr, int(sel.sum()), case["cut"],
                                                              case["pixels_in_spot"]), fn="segment_lima"))
                    break
                continue
            got = np.zeros((ns, nf))
            got[fr.row, fr.col] = fr.pixels["intensity"]
            if fr.nnz != int(sel.sum()) or cImageD11.sparse_is_sorted(fr.row, fr.col) != 0 or \
                    not np.array_equal(got, exp):
                fails.append(fail("segmenter", "frame %d of %d read back from the segmented file: %d pixels stored, %d "
                                  "expected, %d pixels of the image differ (cut %g, pixels_in_spot %d, mask %s)" %
                                  (k, nfr, fr.nnz, int(sel.sum()), int((got != exp).sum()), case["cut"],
                                   case["pixels_in_spot"], mask is not None), fn="segment_lima"))
                break
        if rec is not None:
            rec.note("segmenter_pixels_kept", kept, "sum")
    for f in (src, dst):
        if os.path.exists(f):
            os.remove(f)
    if rec is not None:
        rec.case(case, nfr >= 2, ["segmenter", "pixels_in_spot:%d" % case["pixels_in_spot"]])
    return fails


# ------------------------------------------------------------------ scan level: props / pairrow / pairscans

@st.composite
def scancases(draw):
    nfr = draw(st.integers(1, 8))
    ns = draw(st.integers(2, 16))
    nf = draw(st.integers(2, 16))
    fill = draw(st.sampled_from([0.05, 0.2, 0.5]))
    seed = draw(st.integers(0, 2 ** 31 - 1))
    order = draw(st.sampled_from(["ascending", "descending", "shuffled"]))
    empty = draw(st.booleans())
    zigzag = draw(st.booleans())        # the second row is scanned in the opposite direction
    return dict(nfr=nfr, ns=ns, nf=nf, fill=fill, seed=seed, order=order, empty=empty, zigzag=zigzag)


def fake_scan(vol, omega):
    """a SparseScan built in memory (the class normally reads an HDF5 file)"""
    from ImageD11 import sparseframe
    sc = object.__new__(sparseframe.SparseScan)
    rows, cols, vals, nnz = [], [], [], []
    for fr in vol:
        i, j = np.nonzero(fr)
        rows.append(i.astype(np.uint16))
        cols.append(j.astype(np.uint16))
        vals.append(fr[i, j].astype(np.float32))
        nnz.append(len(i))
    sc.names = ["row", "col", "intensity"]
    sc.nnz = np.array(nnz)
    sc.ipt = sparseframe.nnz_to_pointer(sc.nnz)
    sc.row = np.concatenate(rows) if rows else np.zeros(0, np.uint16)
    sc.col = np.concatenate(cols) if cols else np.zeros(0, np.uint16)
    sc.intensity = np.concatenate(vals) if vals else np.zeros(0, np.float32)
    sc.shape = vol.shape
    sc.motors = {"omega": np.asarray(omega, float)}
    sc.hname, sc.scan = "memory", "1.1"
    return sc


def check_scan(case, rec=None):
    from ImageD11.sinograms import properties
    from vf import oracles
    rng = np.random.RandomState(case["seed"] % (2 ** 32))
    nfr, ns, nf = case["nfr"], case["ns"], case["nf"]
    vols = []
    for r in range(2):
        v = np.where(rng.random_sample((nfr, ns, nf)) < case["fill"], rng.randint(1, 200, (nfr, ns, nf)), 0)
        if case["empty"] and nfr > 1:
            v[rng.randint(nfr)] = 0
        if not v.any():
            v[0, 0, 0] = 5
        vols.append(v)
    omega = np.arange(nfr) * 0.5 + 10.0
    if case["order"] == "descending":
        omega = omega[::-1].copy()
    elif case["order"] == "shuffled":
        omega = rng.permutation(omega)
    fails = []
    scans, labs = [], []
    omegas = [omega, omega[::-1].copy() if case.get("zigzag") else omega]
    for r, v in enumerate(vols):
        omega = omegas[r]
        sc = fake_scan(v, omega)
        ok, res = guard(properties.props, sc, r, "cplabel")
        if not ok:
            return [exc_failure("properties.props", res)]
        tab, pairs = res
        # reference 2-D components per frame
        ref = [oracles.components_scipy(fr > 0, 1) for fr in v]
        L = np.zeros(v.shape, int)
        for k in range(nfr):
            s_, e_ = sc.ipt[k], sc.ipt[k + 1]
            L[k][sc.row[s_:e_], sc.col[s_:e_]] = sc.labels[s_:e_]
            if not oracles.same_partition(L[k], ref[k][0]) or sc.nlabels[k] != ref[k][1]:
                fails.append(fail("scan_labels", "props/cplabel: frame %d labels are not the connected components"
                                  % k, fn="props"))
        if fails:
            return fails
        # peak table: one column per 2-D peak in frame order, label order inside a frame
        exp = []
        for k in range(nfr):
            for lab in range(1, int(sc.nlabels[k]) + 1):
                m = L[k] == lab
                I = v[k][m].astype(np.int64)
                ii, jj = np.nonzero(m)
                exp.append((int(m.sum()), int(I.sum()), int((ii * I).sum()), int((jj * I).sum()), k + r * nfr))
        exp = np.array(exp, np.int64).reshape(-1, 5).T
        if tab.shape != exp.shape or not np.array_equal(tab, exp):
            fails.append(fail("scan_table", "props: 2-D peak table (pixels, intensity, row and column moments, frame) "
                              "differs from the per-component sums (%s vs %s)" % (tab.shape, exp.shape), fn="props"))
        # pairs between frames adjacent in omega
        oo = np.argsort(omega)
        want = {}
        for a, b in zip(oo[:-1], oo[1:]):
            if sc.nnz[a] == 0 or sc.nnz[b] == 0:
                continue
            both = (L[a] > 0) & (L[b] > 0)
            want[(r, a, r, b)] = collections.Counter(zip(L[a][both].tolist(), L[b][both].tolist()))
        got = {}
        for key, (ne, rcl) in pairs.items():
            cnt = collections.Counter()
            if ne:
                for x, y, c_ in np.asarray(rcl).tolist():
                    if (x, y) in cnt:
                        fails.append(fail("dup_pair", "pairrow lists a label pair twice", fn="pairrow"))
                    cnt[(x, y)] += c_
            got[tuple(int(t) for t in key)] = cnt
        if set(got) != set(want) or any(got[k] != want[k] for k in want):
            fails.append(fail("scan_pairs", "pairrow: overlaps between omega-adjacent frames differ from the dense "
                              "count (%d frame pairs expected, %d returned)" % (len(want), len(got)), fn="pairrow"))
        scans.append(sc)
        labs.append(L)
    if not fails:
        ok, pr = guard(properties.pairscans, scans[0], scans[1])
        if not ok:
            fails.append(exc_failure("properties.pairscans", pr))
        else:
            want = {}
            for k in range(nfr):
                k2 = int(np.nonzero(omegas[1] == omegas[0][k])[0][0])       # the frame of row 1 at the same angle
                if scans[0].nnz[k] == 0 or scans[1].nnz[k2] == 0:
                    continue
                both = (labs[0][k] > 0) & (labs[1][k2] > 0)
                want[(0, k, 1, k2)] = collections.Counter(zip(labs[0][k][both].tolist(), labs[1][k2][both].tolist()))
            got = {}
            for key, (ne, rcl) in pr.items():
                cnt = collections.Counter()
                if ne:
                    for x, y, c_ in np.asarray(rcl).tolist():
                        cnt[(x, y)] += c_
                got[tuple(int(t) for t in key)] = cnt
            if set(got) != set(want) or any(got[k] != want[k] for k in want):
                fails.append(fail("scan_pairs", "pairscans: overlaps between the two rows differ from the dense count",
                                  fn="pairscans"))
    if rec is not None:
        rec.case(case, nfr >= 2 and case["fill"] >= 0.2, ["scan:" + case["order"]] +
                 (["scan:zigzag"] if case.get("zigzag") else []))
    return fails


BIGRT = [dict(spec=dict(kind="random", ns=2, nf=65534, seed=3, fill=0.01), maskkind="pattern", dtype="uint16",
              cutpos="zero", detmask=False),
         dict(spec=dict(kind="random", ns=65534, nf=2, seed=4, fill=0.01), maskkind="lastcol", dtype="float32",
              cutpos="between", detmask=True),
         dict(spec=dict(kind="sparse", ns=3, nf=65534, seed=5, fill=0.01), maskkind="corners", dtype="uint32",
              cutpos="zero", detmask=False)]


def run_shard(rec):
    quick = rec.tier == "quick"
    if not quick or rec.shard < len(BIGRT):
        run_cases(rec, "roundtrip", [c for i, c in enumerate(BIGRT) if i % rec.nshards == rec.shard],
                  lambda c: check_rt(c, rec))
    hyp_run(rec, "roundtrip", rtcases(), lambda c: check_rt(c, rec), max_examples=1000 if quick else 8000)
    hyp_run(rec, "overlaps", ovcases(), lambda c: check_ov(c, rec), max_examples=1000 if quick else 8000)
    hyp_run(rec, "overlaps_big", ovbigcases(), lambda c: check_ov(c, rec), max_examples=4 if quick else 30)
    hyp_run(rec, "segmenter", segcases(), lambda c: check_seg(c, rec), max_examples=40 if quick else 400)
    hyp_run(rec, "scan", scancases(), lambda c: check_scan(c, rec), max_examples=60 if quick else 600)


def replay(sub, case, rec):
    if sub == "scan":
        return check_scan(case, rec)
    if sub == "segmenter":
        return check_seg(case, rec)
    return check_ov(case, rec) if sub in ("overlaps", "overlaps_big") else check_rt(case, rec)
