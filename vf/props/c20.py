"""C20 - compiled kernels never touch memory outside their arguments (structured fuzzing under sanitizers).

Every exported kernel of _cImageD11.pyf has a structured generator below (or is listed in NOT_FUZZED with the
reason).  Each generated call runs in a child process whose compiled module was built with AddressSanitizer and
UndefinedBehaviourSanitizer; the case is journaled before the call so that an abort can be attributed.  Every call is
executed twice with the output and work buffers pre-filled with two different byte patterns: wherever the interface
promises a value the two results must be identical (uninitialised output shows up as a difference)."""
import numpy as np
from hypothesis import strategies as st
from vf import gens
from vf.runner import hyp_run, run_cases, guard, fail, exc_failure

RULE = ("one structured generator per exported kernel (54 of the 57 entries of _cImageD11.pyf; the rest take no array "
        "arguments), honouring the documented preconditions (sorted duplicate-free coo indices, labels in 1..npk, "
        "images >= 2x2, nnz >= 1, Z of (ni+2)(nj+2), indices inside the target for the scatter kernels) and "
        "concentrated on boundaries: 2xN / Nx2 images, pixels in the first/last row/column, single pixels, empty "
        "rows, nnz 1, zero peaks / labels, labels at capacity, > 16384 provisional labels, n at multiples of the "
        "4096 OpenMP chunk; many_labels: frames of 16384 / 32768 / 65536 (+-3, +5, +1000) separately started objects through connectedpixels, sparse_connectedpixels and the splat variant with the count, label range and one-to-one numbering known by construction; engines: ASan+UBSan build of the module inside Python with 16 and with 1 OpenMP thread "
        "(journaled child), a two-pattern metamorphic oracle for 'defined on return', and valgrind memcheck on a debug build for reads of uninitialised memory inside the kernels; non-trivial = the case "
        "touches at least one named boundary class; distinct = hash of (kernel, parameters)")
ASSUMPTIONS = ["gcc AddressSanitizer/UBSan detect the out-of-bounds accesses and undefined operations that occur on the "
               "generated inputs (red zones of 16+ bytes around every numpy allocation); libgomp itself is not "
               "instrumented",
               "outputs are compared only where the interface promises a value (e.g. labels of below-threshold members "
               "are not promised by the splat variant)"]
NOT_FUZZED = {"cimaged11_omp_set_num_threads": "no array arguments", "cimaged11_omp_get_max_threads": "no arguments",
              "verify_rounding": "scalar only (called with a range of values)"}

P1, P2 = 0x00, 0xA5
APPROX = {"stats", "mv", "mvm"}


def shard_layout(tier):
    n = 4 if tier == "quick" else 8
    return [("asan", 16)] * n + [("asan", 1)] * n + [("dbg", 1)] * (1 if tier == "quick" else 6)


def replay_flavour(sub):
    return ("dbg", 1) if sub == "valgrind" else ("asan", 16)


def buf(shape, dtype, pat):
    a = np.empty(shape, dtype)
    a.view(np.uint8).reshape(-1)[:] = pat if pat else 0
    if pat and np.dtype(dtype).kind == "f":
        a[...] = -12345.678          # finite garbage for float outputs
    return a


# ---------------------------------------------------------------- generators of inputs

def image(rng, ns, nf, kind):
    spec = dict(kind=kind, ns=ns, nf=nf, seed=int(rng.randint(0, 2 ** 31 - 1)), fill=float(rng.choice([0.05, 0.3, 0.6, 0.95])))
    pat = gens.image_from_spec(spec).astype(bool)
    vals = rng.randint(1, 60, (ns, nf))
    return np.where(pat, vals, 0).astype(np.float32)


def sparse_pattern(rng, ns, nf, kind):
    """sorted duplicate-free coo of a mask with nnz >= 1"""
    m = np.zeros((ns, nf), bool)
    if kind == "single":
        m[rng.randint(ns), rng.randint(nf)] = True
    elif kind == "corners":
        m[0, 0] = m[0, -1] = m[-1, 0] = m[-1, -1] = True
    elif kind == "firstlast":
        m[0, :] = True
        m[-1, :] = True
    elif kind == "lastcol":
        m[:, -1] = True
    elif kind == "emptyrows":
        m[::3, :] = rng.random_sample(m[::3, :].shape) < 0.6
    elif kind == "full":
        m[:] = True
    else:
        m = rng.random_sample((ns, nf)) < rng.choice([0.05, 0.3, 0.7])
    if not m.any():
        m[-1, -1] = True
    i, j = np.nonzero(m)
    return m, i.astype(np.uint16), j.astype(np.uint16)


SHAPES = [(2, 2), (2, 3), (3, 2), (2, 17), (17, 2), (3, 3), (1, 5), (5, 1), (4, 5), (8, 8), (13, 31), (32, 33), (64, 64)]
IMKINDS = list(gens.IMAGE_KINDS)
SPKINDS = ["single", "corners", "firstlast", "lastcol", "emptyrows", "full", "random", "random"]


# ---------------------------------------------------------------- kernel drivers
# each driver(c, rng, q, pat) -> dict name -> array/scalar of PROMISED outputs
# q is the parameter dict of the case

def k_connectedpixels(c, rng, q, pat):
    ns, nf = q["shape"]
    im = image(rng, ns, nf, q["imkind"])
    lab = buf((ns, nf), np.int32, pat)
    n = c.connectedpixels(im, lab, float(q["th"]), 0, q["con8"])
    res = c.blobproperties(im, lab, n, float(q["omega"])) if n > 0 else np.zeros((0, 1))
    if n > 0:
        c.blob_moments(res)
    return dict(n=n, labels=lab, res=res)


def k_bloboverlaps(c, rng, q, pat):
    ns, nf = q["shape"]
    im1 = image(rng, ns, nf, q["imkind"])
    im2 = image(rng, ns, nf, IMKINDS[(IMKINDS.index(q["imkind"]) + 3) % len(IMKINDS)])
    if q["same"]:
        im2 = im1.copy()
    l1 = buf((ns, nf), np.int32, pat)
    l2 = buf((ns, nf), np.int32, pat)
    n1 = c.connectedpixels(im1, l1, 0.5, 0, 1)
    n2 = c.connectedpixels(im2, l2, 0.5, 0, 1)
    if n1 == 0 or n2 == 0:
        return dict(n1=n1, n2=n2)
    r1 = c.blobproperties(im1, l1, n1, 1.0)
    r2 = c.blobproperties(im2, l2, n2, 2.0)
    n = c.bloboverlaps(l1, n1, r1, l2, n2, r2, 0)
    c.blob_moments(r1[:n1])
    c.blob_moments(r2[:n])
    return dict(n=n, l2=l2, r2=r2[:n, :23])


def k_clean_mask(c, rng, q, pat):
    ns, nf = q["shape"]
    msk = (image(rng, ns, nf, q["imkind"]) > 0).astype(np.int8)
    ret = buf((ns, nf), np.int8, pat)
    n = c.clean_mask(msk, ret)
    img = image(rng, ns, nf, q["imkind"])
    msk2 = buf((ns, nf), np.int8, pat)
    ret2 = buf((ns, nf), np.int8, pat)
    n2 = c.make_clean_mask(img, float(q["th"]), msk2, ret2)
    return dict(n=n, ret=ret, n2=n2, msk2=msk2, ret2=ret2)


def k_localmaxlabel(c, rng, q, pat):
    ns, nf = q["shape"]
    im = rng.permutation(ns * nf).reshape(ns, nf).astype(np.float32)
    lab = buf((ns, nf), np.int32, pat)
    wrk = buf((ns, nf), np.uint8, pat)
    n = c.localmaxlabel(im, lab, wrk)
    return dict(n=n, labels=lab)


def k_sparse_cp(c, rng, q, pat):
    ns, nf = q["shape"]
    m, i, j = sparse_pattern(rng, ns, nf, q["spkind"])
    v = rng.randint(0, 40, len(i)).astype(np.float32)
    if q["zero_label"] and len(i) > 2:
        # a few pixels without a number (dead pixels after a flat-field division): not "<= threshold", so labelled
        v[rng.randint(0, len(i), 1 + len(i) // 50)] = np.nan
    lab = buf(len(i), np.int32, pat)
    n = c.sparse_connectedpixels(v, i, j, float(q["th"]), lab)
    lab2 = buf(len(i), np.int32, pat)
    Z = buf((ns + 2) * (nf + 2), np.int32, pat)
    if pat:
        Z[:] = 2          # a work array recycled from the frame before: small positive labels everywhere
    n2 = c.sparse_connectedpixels_splat(v, i, j, float(q["th"]), lab2, Z, ns, nf)
    return dict(n=n, labels=lab, n2=n2, labels2=np.where(~(v <= q["th"]), lab2, 0), sorted=c.sparse_is_sorted(i, j))


def k_sparse_props(c, rng, q, pat):
    ns, nf = q["shape"]
    m, i, j = sparse_pattern(rng, ns, nf, q["spkind"])
    nnz = len(i)
    v = (rng.permutation(nnz) + 1).astype(np.float32)
    npk = int(q["npk"])
    labels = rng.randint(1, npk + 1, nnz).astype(np.int32)
    labels[-1] = npk                     # label at capacity
    if q["zero_label"]:
        labels[0] = 0                    # background pixels are skipped
    res = c.sparse_blob2Dproperties(v, i, j, labels, npk)
    s = buf(nnz, np.float32, pat)
    c.sparse_smooth(v, i, j, s)
    MV = buf(nnz, np.float32, pat)
    iMV = buf(nnz, np.int32, pat)
    l3 = buf(nnz, np.int32, pat)
    n3 = c.sparse_localmaxlabel(v, i, j, MV, iMV, l3)
    return dict(res=res, smooth=s, n3=n3, l3=l3)


def k_overlaps(c, rng, q, pat):
    ns, nf = q["shape"]
    m1, i1, j1 = sparse_pattern(rng, ns, nf, q["spkind"])
    if q["same"]:
        i2, j2 = i1.copy(), j1.copy()
    else:
        m2, i2, j2 = sparse_pattern(rng, ns, nf, SPKINDS[(SPKINDS.index(q["spkind"]) + 2) % len(SPKINDS)])
    n1, n2 = int(q["npk"]), int(q["npk2"])
    l1 = rng.randint(1, n1 + 1, len(i1)).astype(np.int32)
    l2 = rng.randint(1, n2 + 1, len(i2)).astype(np.int32)
    l1[-1], l2[-1] = n1, n2
    k1 = buf(len(i1), np.int32, pat)
    k2 = buf(len(i2), np.int32, pat)
    npx = c.sparse_overlaps(i1, j1, k1, i2, j2, k2)
    out = dict(npx=npx, k1=k1, k2=k2)
    if npx > 0:
        r = l1[k1[:npx]].copy()
        cc = l2[k2[:npx]].copy()
        ect = buf(npx, np.int32, pat)
        tj = buf(npx, np.int32, pat)
        tmp = buf(max(n1, n2) + 1, np.int32, pat)
        ne = c.compress_duplicates(r, cc, ect, tj, tmp)
        out.update(ne=ne, r=r[:ne], c=cc[:ne], ect=ect[:ne])
    mat = buf((n1, n2), np.int32, pat)
    results = buf(3 * n1 * n2, np.int32, pat)
    nov = c.coverlaps(i1, j1, l1, i2, j2, l2, mat, results)
    out.update(nov=nov, results=results[:3 * nov], mat=mat)
    return out


def k_tosparse(c, rng, q, pat):
    ns, nf = q["shape"]
    out = {}
    msk = (rng.random_sample((ns, nf)) < 0.8).astype(np.uint8)
    for name, dt in (("tosparse_u16", np.uint16), ("tosparse_u32", np.uint32), ("tosparse_f32", np.float32)):
        img = rng.randint(0, 5, (ns, nf)).astype(dt) * 100
        row = buf((ns, nf), np.uint16, pat)
        col = buf((ns, nf), np.uint16, pat)
        val = buf((ns, nf), dt, pat)
        n = getattr(c, name)(img, msk, row, col, val, q["cut"])
        out[name] = (n, row.ravel()[:n].copy(), col.ravel()[:n].copy(), val.ravel()[:n].copy())
        if name == "tosparse_u32" and n > 0:
            # this variant takes output arrays of any length: exactly as long as the result is enough
            r3, c3, v3 = buf(n, np.uint16, pat), buf(n, np.uint16, pat), buf(n, dt, pat)
            n3 = c.tosparse_u32(img, msk, r3, c3, v3, q["cut"])
            out["tosparse_u32_exact"] = (n3, r3.copy(), c3.copy(), v3.copy())
    m = (image(rng, ns, nf, q["imkind"]) > 0)
    nnz = int(m.sum())
    if nnz > 0:
        i = buf(nnz, np.uint16, pat)
        j = buf(nnz, np.uint16, pat)
        w = buf(ns, np.int32, pat)
        out["mask_to_coo"] = (c.mask_to_coo(m.astype(np.int8), i, j, w), i, j)
        # documented error returns: wrong nnz
        i2 = buf(nnz + 1, np.uint16, pat)
        out["mask_to_coo_bad"] = c.mask_to_coo(m.astype(np.int8), i2, i2.copy(), buf(ns, np.int32, pat))
        # a signed mask with negative flags next to the positive ones, index arrays sized for the positive entries (as
        # sparseframe.from_data_mask sizes them): accepted or refused, never written beyond the arrays
        mneg = m.astype(np.int8)
        mneg[m & (rng.random_sample(m.shape) < 0.3)] = -1
        npos = int((mneg > 0).sum())
        if npos > 0:
            i3 = buf(npos, np.uint16, pat)
            j3 = buf(npos, np.uint16, pat)
            out["mask_to_coo_signed"] = c.mask_to_coo(mneg, i3, j3, buf(ns, np.int32, pat))
    return out


def k_darkflat(c, rng, q, pat):
    ns, nf = q["shape"]
    npx = ns * nf
    data = rng.randint(0, 65535, npx).astype(np.uint16)
    drk = rng.uniform(0, 100, npx).astype(np.float32)
    flm = rng.uniform(0.5, 2, npx).astype(np.float32)
    o1 = buf(npx, np.float32, pat)
    c.uint16_to_float_darksub(o1, drk, data)
    o2 = buf(npx, np.float32, pat)
    c.uint16_to_float_darkflm(o2, drk, flm, data)
    # every row has pixels below the cut (otherwise the row average is inherited per thread)
    im = rng.uniform(0, 50, (ns, nf)).astype(np.float32)
    im[:, 0] = 1.0
    a = im.copy()
    c.frelon_lines(a, 100.0)
    b = im.copy() + 10
    d = np.full((ns, nf), 10, np.float32)
    c.frelon_lines_sub(b, d, 100.0)
    stats = c.array_stats(im.ravel())
    mv = c.array_mean_var_cut(im.ravel(), 3, 3.0, 0)
    mk = (rng.random_sample(npx) < 0.7).astype(np.uint8)
    mk[0] = 1
    mvm = c.array_mean_var_msk(im.ravel(), mk, 3, 3.0, 0)
    nh = int(q["nhist"])
    hist = buf(nh, np.int32, pat)
    lo, hi = (float(im.min()), float(im.max())) if q["hist_minmax"] else (5.0, 30.0)
    c.array_histogram(im.ravel(), lo, hi, hist)
    bg = im.copy()
    mskb = buf((ns, nf), np.int8, pat)
    c.bgcalc(im, bg, mskb, 0.5, 1.0, 2.0)
    return dict(o1=o1, o2=o2, a=a, b=b, stats=np.array(stats), mv=np.array(mv), mvm=np.array(mvm), hist=hist,
                histsum=int(hist.sum()) - npx, bg=bg, mskb=mskb)


def k_reorder(c, rng, q, pat):
    n = int(q["n"])
    adr = rng.permutation(n).astype(np.int32)
    out = {}
    for name, dt in (("reorder_u16_a32", np.uint16), ("reorder_f32_a32", np.float32),
                     ("reorderlut_u16_a32", np.uint16), ("reorderlut_f32_a32", np.float32)):
        data = rng.randint(0, 1000, n).astype(dt)
        o = buf(n, dt, pat)
        getattr(c, name)(data, adr, o)
        out[name] = o
    ns, nf = q["shape"]
    data = rng.randint(0, 1000, (ns, nf)).astype(np.uint16)
    # each row writes a contiguous run starting at adr0[i]+1 stepping +1
    adr0 = (np.arange(ns) * nf - 1).astype(np.int32)
    adr0[0] = -1
    adr1 = np.ones((ns, nf), np.int16)
    o = buf((ns, nf), np.uint16, pat)
    c.reorder_u16_a32_a16(data, adr0.astype(np.uint32).astype(np.int32), adr1, o)
    out["a32_a16"] = o
    m = int(q["m"])
    dat = np.zeros(m, np.float32)
    ind64 = rng.randint(0, m, n).astype(np.int64)
    vals = rng.uniform(0, 1, n).astype(np.float32)
    c.put_incr64(dat, ind64, vals)
    dat2 = np.zeros(m, np.float32)
    c.put_incr32(dat2, ind64.astype(np.int32), vals)
    # with boundscheck the out of range indices must be skipped
    ind_bad = ind64.copy()
    ind_bad[::3] = m + 5
    ind_bad[1::7] = -2
    ind_bad[2::5] = m                 # first index past the end
    ind_bad[3::11] = -1
    ind_bad[4::13] = m - 1            # last valid one
    dat3 = np.zeros(m, np.float32)
    c.put_incr64(dat3, ind_bad, vals, 1)
    dat4 = np.zeros(m, np.float32)
    c.put_incr32(dat4, ind_bad.astype(np.int32), vals, 1)
    out.update(p64=dat, p32=dat2, p64b=dat3, p32b=dat4)
    return out


def k_scoring(c, rng, q, pat):
    n = int(q["n"])
    B = gens.busing_levy_B([4.1, 5.2, 6.3, 80., 95., 105.])
    UB = gens.rotation_from_seed(int(rng.randint(0, 2 ** 31 - 1))) @ B
    h = rng.randint(-6, 7, (n, 3)) + rng.uniform(-0.2, 0.2, (n, 3))
    gv = np.ascontiguousarray((UB @ h.T).T)
    ubi = np.ascontiguousarray(np.linalg.inv(UB))
    out = dict(score=c.score(ubi, gv, 0.1))
    u2 = ubi.copy()
    out["sar"] = (c.score_and_refine(u2, gv, 0.1), u2)
    if n > 0:
        drlv2 = np.full(n, 2.0)
        labels = buf(n, np.int32, 0) - 1
        out["saa"] = (c.score_and_assign(ubi, gv, 0.1, drlv2, labels, 3), drlv2, labels)
        lab = rng.randint(0, 3, n).astype(np.int32)
        u3 = ubi.copy()
        out["ra"] = (c.refine_assigned(u3, gv, lab, 1), u3)
        g0 = buf((n, 3), float, pat)
        g1 = buf((n, 3), float, pat)
        g2 = buf((n, 3), float, pat)
        e = buf((n, 3), float, pat)
        c.score_gvec_z(ubi, np.ascontiguousarray(UB), gv, g0, g1, g2, e, 1)
        out["gvz"] = (g0, g1, g2, e)
        ar = rng.uniform(0, 10, n)
        order = np.argsort(ar).astype(np.int32)
        ids = buf(n, np.int32, pat)
        avgs = buf(n, float, pat)
        ncl = c.cluster1d(ar, order, 0.2, ids, avgs)
        out["cl"] = (ncl, ids, avgs[:ncl])
        pi = np.sort(rng.randint(0, 3 * n + 1, n)).astype(np.int32)
        pj = np.sort(rng.randint(0, 3 * n + 1, max(1, n // 2))).astype(np.int32)
        out["shared"] = c.count_shared(pi, pj)
        xl = rng.uniform(-1e5, 1e5, (n, 3))
        xl[:, 0] = np.abs(xl[:, 0]) + 1e4
        om = rng.uniform(-180, 180, n)
        gout = buf((n, 3), float, pat)
        c.compute_gv(xl, om, -1.0, 0.3, 2.0, -3.0, np.array([10., 20., 30.]), gout)
        geo = buf((n, 6), float, pat)
        c.compute_geometry(xl, om, 1.0, 0.3, 2.0, -3.0, np.array([10., 20., 30.]), geo)
        xo = buf((n, 3), float, pat)
        c.compute_xlylzl(rng.uniform(0, 2048, n), rng.uniform(0, 2048, n), np.array([1000., 1000., 50., -50.]),
                         np.eye(3).ravel(), np.array([1e5, 0., 0.]), xo)
        out["geom"] = (gout, geo, xo)
    if n >= 1:
        x = rng.uniform(-1, 1, (n, int(q["dim"])))
        ic = buf(n, np.int32, pat)
        c.closest_vec(x, ic)              # one vector: there is no neighbour, nothing outside x may be read
        out["cv"] = ic
    if n >= 2:
        cosx = rng.uniform(-1, 1, n)
        out["closest"] = c.closest(cosx, np.sort(rng.uniform(-1, 1, 5)))
    U1 = gens.rotation_from_seed(int(rng.randint(0, 2 ** 31 - 1)))
    U2 = gens.rotation_from_seed(int(rng.randint(0, 2 ** 31 - 1)))
    out["mis"] = [f(U1, U2) for f in (c.misori_cubic, c.misori_orthorhombic, c.misori_tetragonal, c.misori_monoclinic)]
    ub = np.array([UB @ [1, 0, 0], UB @ [0, 1, 1], [0, 0, 0]], float)
    bt = np.ascontiguousarray(rng.uniform(-1, 1, (3, 3)))
    c.quickorient(ub, bt)
    out["qo"] = ub
    out["vr"] = [c.verify_rounding(k) for k in (0, 1, 4097, 10 ** 6)]
    return out


def k_splat(c, rng, q, pat):
    w, h = q["shape"]
    rgba = buf((h, w, 4), np.uint8, 0)
    n = int(q["n"])
    gve = rng.uniform(-1.5, 1.5, (n, 3))
    u = np.concatenate([gens.rotation_from_seed(int(rng.randint(0, 2 ** 31 - 1))).ravel()])
    c.splat(rgba, gve, u * min(w, h) / 2.0, int(q["npx"]))
    return dict(rgba=rgba)


KERNELS = {
    "connectedpixels+blobproperties+blob_moments": k_connectedpixels,
    "bloboverlaps": k_bloboverlaps,
    "clean_mask+make_clean_mask": k_clean_mask,
    "localmaxlabel": k_localmaxlabel,
    "sparse_connectedpixels+splat+is_sorted": k_sparse_cp,
    "sparse_blob2Dproperties+smooth+localmaxlabel": k_sparse_props,
    "sparse_overlaps+compress_duplicates+coverlaps": k_overlaps,
    "tosparse+mask_to_coo": k_tosparse,
    "darkflat+stats+histogram+bgcalc": k_darkflat,
    "reorder+put_incr": k_reorder,
    "scoring+geometry+misc": k_scoring,
    "splat": k_splat,
}


@st.composite
def cases(draw, big=False):
    name = draw(st.sampled_from(sorted(KERNELS)))
    shape = draw(st.sampled_from(SHAPES)) if not big else draw(st.sampled_from([(300, 300), (257, 511), (2, 4097),
                                                                                    (4097, 2), (512, 512)]))
    if name in ("connectedpixels+blobproperties+blob_moments", "bloboverlaps", "clean_mask+make_clean_mask",
                "localmaxlabel", "darkflat+stats+histogram+bgcalc", "splat") and min(shape) < 2:
        shape = (2, max(shape))
    n = draw(st.sampled_from([0, 1, 2, 3, 5, 64, 100] if not big else [4095, 4096, 4097, 8192, 12289]))
    if n == 0 and name in ("reorder+put_incr", "splat"):
        n = 1          # the f2py wrappers reject zero-length arrays for these (ValueError before any kernel runs)
    q = dict(kernel=name, shape=shape, seed=draw(st.integers(0, 2 ** 31 - 1)),
             imkind=draw(st.sampled_from(IMKINDS if not big else ["checker", "comb", "random", "stripes"])),
             spkind=draw(st.sampled_from(SPKINDS)), th=draw(st.sampled_from([0, 0.5, 10, 30, 1000])),
             con8=draw(st.sampled_from([0, 1])), omega=draw(st.sampled_from([0.0, -37.25, 180.0])),
             same=draw(st.booleans()), npk=draw(st.sampled_from([1, 2, 7, 40])), npk2=draw(st.sampled_from([1, 3, 9])),
             zero_label=draw(st.booleans()), cut=draw(st.sampled_from([0, 100, 399, 400])),
             nhist=draw(st.sampled_from([1, 2, 16, 255])), hist_minmax=draw(st.booleans()),
             n=n, m=draw(st.sampled_from([1, 2, 17, 1000])), dim=draw(st.sampled_from([1, 2, 3, 6])),
             npx=draw(st.sampled_from([0, 1, 3])))
    return q


def equal(a, b):
    if isinstance(a, dict):
        return all(equal(a[k], b[k]) for k in a)
    if isinstance(a, (tuple, list)):
        return len(a) == len(b) and all(equal(x, y) for x, y in zip(a, b))
    a = np.asarray(a)
    b = np.asarray(b)
    if a.shape != b.shape:
        return False
    if a.dtype.kind == "f":
        return bool(np.array_equal(a, b, equal_nan=True))
    return bool(np.array_equal(a, b))


def boundary(q):
    name = q["kernel"]
    cls = []
    if min(q["shape"]) <= 2:
        cls.append("thin_image")
    if q["spkind"] in ("single", "corners", "firstlast", "lastcol", "emptyrows") and "sparse" in name:
        cls.append("sparse_boundary:" + q["spkind"])
    if q["n"] in (0, 1) and name in ("scoring+geometry+misc", "reorder+put_incr", "splat"):
        cls.append("n<=1")
    if q["n"] >= 4095:
        cls.append("omp_chunk")
    if q["shape"][0] * q["shape"][1] >= 65536 and q["imkind"] in ("checker", "comb"):
        cls.append("many_provisional_labels")
    if q["npk"] == 1 or q["nhist"] == 1 or q["m"] == 1:
        cls.append("capacity_1")
    if q["hist_minmax"] and "histogram" in name:
        cls.append("value_at_upper_edge")
    return cls


def check(q, rec=None):
    from ImageD11 import cImageD11 as c
    if rec is not None:
        rec.journal("kernels", q)          # write-before-call: a sanitizer abort is attributed to this case
    fn = KERNELS[q["kernel"]]
    outs = []
    for pat in (P1, P2):
        rng = np.random.RandomState(q["seed"] % (2 ** 32))
        ok, r = guard(fn, c, rng, q, pat)
        if not ok:
            return [exc_failure(q["kernel"], r)]
        outs.append(r)
    fails = []
    for k in outs[0]:
        if k in APPROX:
            # OpenMP float reductions: the summation order varies from run to run
            a, b = np.asarray(outs[0][k], float), np.asarray(outs[1][k], float)
            if a.shape != b.shape or not np.allclose(a, b, rtol=1e-3, atol=1e-3, equal_nan=True):
                fails.append(fail("undefined_output", "%s: output %r differs between two calls beyond reduction "
                                  "round-off: %s vs %s" % (q["kernel"], k, a, b), kernel=q["kernel"], out=k))
            continue
        if not equal(outs[0][k], outs[1][k]):
            fails.append(fail("undefined_output", "%s: output %r depends on the previous content of the output/work "
                              "buffers (shape %s, n %s)" % (q["kernel"], k, q["shape"], q["n"]), kernel=q["kernel"],
                              out=k))
    if "histsum" in outs[0] and outs[0]["histsum"] != 0:
        fails.append(fail("histogram", "array_histogram lost or invented %d pixels" % outs[0]["histsum"],
                          kernel=q["kernel"]))
    if rec is not None:
        cls = boundary(q)
        rec.case(q, bool(cls), ["k:" + q["kernel"]] + cls)
    return fails


def second_engine(rec, n):
    """the semantic checks of the labelling / sparse / scoring properties, executed under the sanitizer build;
    only memory-safety matters here (their own checks decide the semantics)"""
    from vf.props import c11, c12, c13, c14, c06
    from hypothesis import given, settings, HealthCheck, seed
    for name, strat, fn in (("c11", c11.cases(40), c11.check), ("c12", c12.cases(8, 12), c12.check),
                            ("c13", c13.cases(24), c13.check), ("c13s", c13.spcases(), c13.check_sparse),
                            ("c14", c14.rtcases(32), c14.check_rt), ("c14o", c14.ovcases(), c14.check_ov),
                            ("c06", c06.cases(False), c06.check)):
        @seed(rec.seed * 1000 + rec.shard)
        @settings(max_examples=n, database=None, deadline=None, suppress_health_check=list(HealthCheck))
        @given(strat)
        def run(case):
            rec.journal("engine2:" + name, case)
            fn(case, None)
            rec.count(1, ["semantic_under_asan:" + name])
        run()


# ---------------------------------------------------------------- engine 3: valgrind memcheck (uninitialised reads)

SRC_MARKS = ["(%s:" % f for f in ("closest.c", "connectedpixels.c", "blobs.c", "sparse_image.c", "localmaxlabel.c",
                                  "darkflat.c", "cdiffraction.c", "cimaged11utils.c", "splat.c")]


def vg_child(path):
    """executed under valgrind: run every case of the file once, announcing it on stderr first"""
    import json, sys
    from vf.runner import dec
    from ImageD11 import cImageD11 as c
    with open(path) as f:
        todo = json.load(f)
    for k, q in enumerate(todo):
        q = dec(q)
        sys.stderr.write("\nVERIF-CASE %d\n" % k)
        sys.stderr.flush()
        rng = np.random.RandomState(q["seed"] % (2 ** 32))
        try:
            KERNELS[q["kernel"]](c, rng, q, P2)
        except Exception as e:       # exceptions are the business of the sanitizer shards
            sys.stderr.write("VERIF-EXC %r\n" % (e,))
    sys.stderr.write("\nVERIF-CASE -1\n")


def vg_run(todo, tag):
    """returns list of (case index, report text) for memcheck errors inside the module's C sources"""
    import os, sys, json, subprocess
    from vf.runner import enc
    tmp = os.environ.get("VERIF_TMP", ".")
    path = os.path.join(tmp, "vg_cases_%s.json" % tag)
    with open(path, "w") as f:
        json.dump([enc(q) for q in todo], f)
    env = dict(os.environ, PYTHONMALLOC="malloc", OMP_NUM_THREADS="1")
    env.pop("LD_PRELOAD", None)
    p = subprocess.run(["valgrind", "--error-limit=no", "--num-callers=14", "--undef-value-errors=yes",
                        "--leak-check=no", sys.executable, "-c",
                        "from vf.props import c20; c20.vg_child(%r)" % path],
                       env=env, stdout=subprocess.PIPE, stderr=subprocess.PIPE)
    log = p.stderr.decode(errors="replace")
    os.remove(path)
    if "VERIF-CASE -1" not in log:
        # the child died: attribute to the last announced case if memcheck says why, else harness error
        if "Process terminating" not in log and "Invalid" not in log:
            raise RuntimeError("valgrind child failed:\n" + log[-3000:])
    hits = []
    cur = -1
    block = []

    def flush():
        if block:
            txt = "\n".join(block)
            head = block[0]
            kinds = ("uninitialised", "Invalid read", "Invalid write", "Invalid free", "Mismatched", "overlap",
                     "Process terminating")
            if any(k in head for k in kinds) and any(m in txt for m in SRC_MARKS):
                hits.append((cur, txt))
    for line in log.splitlines():
        if line.startswith("VERIF-CASE"):
            flush()
            block = []
            cur = int(line.split()[1])
            continue
        if line.startswith("=="):
            body = line.split("== ", 1)[1] if "== " in line else ""
            if body.strip() == "":
                flush()
                block = []
            else:
                block.append(body)
    flush()
    return hits


def run_valgrind_shard(rec):
    quick = rec.tier == "quick"
    todo = []

    def collect(q):
        todo.append(q)
        return []
    hyp_run(rec, "vg_collect", cases(False), collect, max_examples=150 if quick else 1200)
    # kernels with accumulators are the ones at risk: make sure each group is present several times
    hits = vg_run(todo, "%d" % rec.shard)
    for q in todo:
        rec.case(dict(q, engine="valgrind"), bool(boundary(q)), ["valgrind", "k:" + q["kernel"]])
    seen = set()
    for k, txt in hits:
        if k < 0 or k >= len(todo):
            continue
        sig = txt.splitlines()[1] if len(txt.splitlines()) > 1 else txt[:80]
        if sig in seen:
            continue
        seen.add(sig)
        f = fail("valgrind", "memcheck: %s" % txt[:1500], kernel=todo[k]["kernel"], where=sig.strip())
        unknown = rec.filter_known([f])
        if unknown:
            rec.violation("valgrind", todo[k], unknown)


# ------------------------------------------------------------------ labelling kernels around the growth of their tables

CAPS = [16384, 32768, 65536]


@st.composite
def manycases(draw):
    """frames whose number of separately started objects sits at / next to the sizes at which the labelling kernels
    grow their equivalence table (16384 words, doubled as needed)"""
    cap = draw(st.sampled_from(CAPS[:2] + CAPS))
    nobj = cap + draw(st.sampled_from([-3, -2, -1, 0, 1, 2, 3, 5, 1000]))
    return dict(nobj=nobj, pitch=draw(st.sampled_from([2, 3])), seed=draw(st.integers(0, 2 ** 31 - 1)),
                domino=draw(st.booleans()), width=draw(st.sampled_from([0, 0, 257, 1000])))


def check_many(q, rec=None):
    from ImageD11 import cImageD11 as c
    if rec is not None:
        rec.journal("many_labels", q)
    rng = np.random.RandomState(q["seed"] % (2 ** 32))
    nobj, pitch = q["nobj"], q["pitch"]
    side = q["width"] or int(np.ceil(np.sqrt(nobj)))
    nrow = (nobj + side - 1) // side
    k = np.arange(nobj)
    r, cc = pitch * (k // side) + 1, (pitch + 1) * (k % side) + 1
    im = np.zeros((pitch * nrow + 2, (pitch + 1) * side + 2), np.float32)
    obj = np.zeros(im.shape, np.int64)                 # object number by construction: isolated pixels / dominoes
    im[r, cc] = 10 + rng.randint(0, 50, nobj)
    obj[r, cc] = k + 1
    if q["domino"]:
        d = rng.random_sample(nobj) < 0.3
        im[r[d], cc[d] + 1] = 7
        obj[r[d], cc[d] + 1] = k[d] + 1
    fails = []

    def judge(name, n, lab, ob):
        lab = np.asarray(lab)
        if n != nobj:
            fails.append(fail("many_labels", "%s: %d objects returned for a frame of %d separate objects" %
                              (name, n, nobj), kernel=name))
        elif lab.min() < 0 or lab.max() > n or ((lab > 0) != (ob > 0)).any():
            fails.append(fail("many_labels", "%s: labels outside 0..%d (largest %d) or on background, frame of %d "
                              "separate objects" % (name, n, lab.max(), nobj), kernel=name))
        else:
            m = ob > 0
            first = np.zeros(nobj + 1, np.int64)
            first[ob[m]] = lab[m]
            if (first[ob[m]] != lab[m]).any() or len(np.unique(first[1:])) != nobj:
                fails.append(fail("many_labels", "%s: the labels do not number the %d separate objects one to one" %
                                  (name, nobj), kernel=name))
    for pat in (P1, P2):
        lab = buf(im.shape, np.int32, pat)
        ok, n = guard(c.connectedpixels, im, lab, 0.5, 0, 1)
        if not ok:
            return [exc_failure("connectedpixels", n)]
        judge("connectedpixels", n, lab, obj)
        if n > 0 and not fails:
            res = c.blobproperties(im, lab, n, 0.0)
            if not (res[:, 0] >= 1).all():          # s_1 = number of pixels: every object has some
                fails.append(fail("many_labels", "blobproperties: objects without pixels in a frame of %d objects" %
                                  nobj, kernel="blobproperties"))
        i, j = np.nonzero(im)
        i, j = i.astype(np.uint16), j.astype(np.uint16)
        v = im[i, j]
        lab1 = buf(len(i), np.int32, pat)
        ok, n1 = guard(c.sparse_connectedpixels, v, i, j, 0.5, lab1)
        if not ok:
            return [exc_failure("sparse_connectedpixels", n1)]
        judge("sparse_connectedpixels", n1, lab1, obj[i, j])
        lab2 = buf(len(i), np.int32, pat)
        Z = buf((im.shape[0] + 2) * (im.shape[1] + 2), np.int32, pat)
        ok, n2 = guard(c.sparse_connectedpixels_splat, v, i, j, 0.5, lab2, Z, im.shape[0], im.shape[1])
        if not ok:
            return [exc_failure("sparse_connectedpixels_splat", n2)]
        judge("sparse_connectedpixels_splat", n2, lab2, obj[i, j])
        if n1 > 0 and not fails:
            res = c.sparse_blob2Dproperties(v, i, j, lab1, n1)
            if not (res[:, 0] >= 1).all():
                fails.append(fail("many_labels", "sparse_blob2Dproperties: objects without pixels in a frame of %d "
                                  "objects" % nobj, kernel="sparse_blob2Dproperties"))
        if fails:
            break
    if rec is not None:
        rec.case(q, True, ["many_labels:%d%+d" % (min(CAPS, key=lambda x: abs(x - nobj)),
                                                   nobj - min(CAPS, key=lambda x: abs(x - nobj)))])
    return fails


def run_shard(rec):
    import os
    if os.environ.get("VERIF_FLAVOUR") == "dbg":
        return run_valgrind_shard(rec)
    quick = rec.tier == "quick"
    hyp_run(rec, "kernels", cases(False), lambda q: check(q, rec), max_examples=500 if quick else 5000)
    hyp_run(rec, "kernels", cases(True), lambda q: check(q, rec), max_examples=10 if quick else 80, shrink=False)
    hyp_run(rec, "many_labels", manycases(), lambda q: check_many(q, rec), max_examples=4 if quick else 40, shrink=False)
    second_engine(rec, 15 if quick else 200)


def replay(sub, case, rec):
    if sub == "valgrind":
        hits = vg_run([case], "replay")
        return [fail("valgrind", "memcheck: %s" % txt[:1500]) for k, txt in hits]
    if sub.startswith("engine2:"):
        from vf.props import c11, c12, c13, c14, c06
        fn = {"c11": c11.check, "c12": c12.check, "c13": c13.check, "c13s": c13.check_sparse, "c14": c14.check_rt,
              "c14o": c14.check_ov, "c06": c06.check}[sub.split(":")[1]]
        fn(case, None)
        return []
    if sub == "many_labels":
        return check_many(case, None)
    return check(case, None)
