"""C18 - saved peaks, parameters and grains read back as written."""
import os, re, math
import numpy as np
from hypothesis import strategies as st
from vf import gens
from vf.runner import hyp_run, run_cases, guard, fail, exc_failure

THOROUGH_SCALE = 4      # multiplies every generated-case budget of the thorough tier
RULE = ("columnfiles: 1-12 titles mixing names from the FORMATS table (FLOATS/INTS/LONGFLOATS/EXPONENTIALS) and "
        "unknown names, 1-8 rows, finite values incl. -0.0 with magnitudes 1e-12..1e12 (integers for INTS titles), "
        "header parameters int/float/str; text save->load->save->load and HDF5 write / overwrite (same or different "
        "length) / two groups / colfileobj_to_hdf / mmap; parameter dictionaries (names [A-Za-z_][A-Za-z0-9_]*, "
        "ints |v|<2^63, floats incl. inf, -0.0, subnormals, whitespace-free strings that do not parse as a number); "
        "grain lists 1-8 (text and HDF5) and ubi files; sparse frames through HDF5 groups; oracle = round trip with "
        "precision bounds derived from the documented format table; non-trivial columnfile case = >=1 unknown title, "
        ">=1 exponent-format or long-float title and values spanning >=6 decades, or an HDF overwrite history; other "
        "kinds: >=2 entries; distinct = hash of the case")
ASSUMPTIONS = ["print precision bound: |written-read| <= 0.5*10^-d (+2 ulp) for %.df, relative 0.5e-4 for %.4e",
               "strings that float() accepts ('12', 'inf', '1_0') are numbers in the untyped text format: excluded, counted",
               "grain text files: names compared modulo surrounding whitespace and npks through int() as every caller does",
               "h5py round-trips numpy arrays exactly"]

NAME_RE = re.compile(r"^[A-Za-z_][A-Za-z0-9_]*$")


def shard_layout(tier):
    return [("opt", None)] * (8 if tier == "quick" else 16)


def tmpfile(name):
    return os.path.join(os.environ.get("VERIF_TMP", "."), name)


def rm(*paths):
    for p in paths:
        try:
            os.remove(p)
        except OSError:
            pass


# ------------------------------------------------------------------ strategies

UNKNOWN_TITLES = ["a", "b2", "my_col", "X", "zeta", "p.q", "q-r", "t[0]", "intensity%", "u:v"]
# The print formats documented for the named columns (columnfile module header: positions and angles 4 decimals,
# integer-valued columns none, orientation matrix elements 12 decimals, strain/stress tensor elements and their
# covariances 4 significant decimals in exponent form; anything else "%f").  Written out here independently of the
# library's table so that a title dropping out of that table is seen.
DOC_FLOATS = ["fc", "sc", "omega", "f_raw", "s_raw", "sigf", "sigs", "covsf", "sigo", "covso", "covfo", "sum_intensity",
              "sum_intensity^2", "IMax_int", "IMax_o", "avg_intensity", "Min_o", "Max_o", "dety", "detz", "gx", "gy",
              "gz", "hr", "kr", "zr", "xl", "yl", "zl", "drlv2", "tth", "eta", "tth_hist_prob"]
DOC_INTS = ["Number_of_pixels", "IMax_f", "IMax_s", "Min_f", "Max_f", "Min_s", "Max_s", "spot3d_id", "spot4d_id", "h",
            "k", "l", "onfirst", "onlast", "labels", "Grain", "grainno", "grain_id", "IKEY", "npk2d"]
_IJ = ["%d%d" % (i, j) for i in (1, 2, 3) for j in (1, 2, 3)]
_SYM = ["11", "22", "33", "23", "13", "12"]
DOC_FORMATS = {}
for _t in DOC_FLOATS:
    DOC_FORMATS[_t] = "%.4f"
for _t in DOC_INTS:
    DOC_FORMATS[_t] = "%.0f"
for _v in _IJ:
    DOC_FORMATS["U" + _v] = "%.12f"
    DOC_FORMATS["UBI" + _v] = "%.12f"
for _v in _SYM:
    for _h, _e in (("eps", ""), ("eps", "_s"), ("sig", ""), ("sig", "_s")):
        DOC_FORMATS[_h + _v + _e] = "%.4e"
for _a in range(6):
    for _b in range(_a, 6):                     # variances (a == b) and covariances of the six tensor elements
        for _h, _e in (("e", ""), ("e", "_s"), ("s", ""), ("s", "_s")):
            DOC_FORMATS[_h + _SYM[_a] + _h + _SYM[_b] + _e] = "%.4e"
KNOWN_TITLES = sorted(DOC_FORMATS)

finite = st.floats(allow_nan=False, allow_infinity=False, width=64)


@st.composite
def values(draw, integer=False):
    kind = draw(st.sampled_from(["small", "mag", "zero", "negzero", "int"]))
    if integer or kind == "int":
        return float(draw(st.integers(-10 ** 12, 10 ** 12)))
    if kind == "zero":
        return 0.0
    if kind == "negzero":
        return -0.0
    if kind == "small":
        return draw(st.floats(-1000, 1000, allow_nan=False, width=64))
    e = draw(st.integers(-12, 12))
    m = draw(st.floats(1.0, 9.999999, allow_nan=False, width=64))
    s = draw(st.sampled_from([1.0, -1.0]))
    return s * m * 10.0 ** e


def parnames():
    return st.from_regex(r"\A[A-Za-z_][A-Za-z0-9_]{0,10}\Z")


def parstrings():
    return st.text(alphabet=st.sampled_from(list("abcXYZ_-./:=#%01e+")), min_size=0, max_size=8)


def parvalues():
    return st.one_of(
        st.integers(-2 ** 63 + 1, 2 ** 63 - 1),
        st.floats(allow_nan=False, width=64),
        st.sampled_from([0.0, -0.0, 5e-324, 1e22, 1e16, 123456789.0, float("inf"), -float("inf"), 1.0, 3.0]),
        parstrings())


def numeric_looking(s):
    try:
        float(s)
        return True
    except ValueError:
        return False


@st.composite
def colfiles(draw, text=False):
    nk = draw(st.integers(0, 8))
    nu = draw(st.integers(0 if nk else 1, 4))
    titles = draw(st.lists(st.sampled_from(KNOWN_TITLES), min_size=nk, max_size=nk, unique=True)) + \
        draw(st.lists(st.sampled_from(UNKNOWN_TITLES), min_size=nu, max_size=nu, unique=True))
    titles = list(draw(st.permutations(titles)))
    nrows = draw(st.integers(1, 8))
    ints = _ints()
    # integer-titled columns usually hold whole numbers; one file in four holds averaged / fractional values there
    # (written with no decimals: rounded to the nearest whole number, not cut off)
    # (text route only: the HDF route stores these columns as integers by design)
    fracints = text and draw(st.sampled_from([False, False, False, True]))
    cols = {t: [draw(values(integer=(t in ints and not fracints))) for _ in range(nrows)] for t in titles}
    npar = draw(st.integers(0, 4))
    pars = {draw(parnames()): draw(parvalues()) for _ in range(npar)}
    return dict(titles=titles, cols=cols, pars=pars)


def _ints():
    return set(DOC_INTS)


def fmt_tolerance(fmt, v):
    """max |read - written| implied by a printf format"""
    ulp = 2 * math.ulp(abs(v)) if v == v and abs(v) != float("inf") else 0.0
    m = re.match(r"^%\.(\d+)f$", fmt)
    if m:
        return 0.5 * 10.0 ** (-int(m.group(1))) * (1 + 1e-12) + ulp
    if fmt == "%f":
        return 0.5e-6 * (1 + 1e-12) + ulp
    m = re.match(r"^%\.(\d+)e$", fmt)
    if m:
        return abs(v) * 0.5 * 10.0 ** (-int(m.group(1))) * (1 + 1e-12) + ulp
    raise RuntimeError("harness: unknown format %r" % fmt)


def par_equal(a, b):
    if type(a) != type(b):
        # bool/int confusion does not occur: generators do not produce bools
        return False
    if isinstance(a, float):
        if a != a:
            return b != b
        return a == b and math.copysign(1, a) == math.copysign(1, b)
    return a == b


def clean_pars(pars, rec=None):
    """drop parameters outside the documented domain (numeric looking strings), counted"""
    out = {}
    for k, v in pars.items():
        if isinstance(v, str) and (numeric_looking(v) or v != v.strip() or " " in v):
            if rec is not None:
                rec.exclude("string parameter that parses as a number (untyped text format)")
            continue
        out[k] = v
    return out


# ------------------------------------------------------------------ columnfile text

def check_colfile_text(case, rec=None):
    from ImageD11 import columnfile
    pars = clean_pars(case["pars"], rec)
    pars = {k: v for k, v in pars.items() if not (isinstance(v, str) and ("=" in v or "#" in v and False))}
    titles = case["titles"]
    arrays = {t: np.array(case["cols"][t], float) for t in titles}
    cf = columnfile.colfile_from_dict(arrays)
    for k, v in pars.items():
        cf.parameters.set(k, v)
    nr_ = len(next(iter(arrays.values()))) if arrays else 0
    if nr_ >= 1 and len(titles) % 3 == 1:
        # what is written is a selection of rows (here: all of them) taken from a larger table, by mask or by index
        ok, cf = guard(cf.copyrows, np.ones(nr_, bool) if nr_ % 2 else np.arange(nr_))
        if not ok:
            return [exc_failure("copyrows", cf)]
    f1, f2 = tmpfile("c18_a.flt"), tmpfile("c18_b.flt")
    rm(f1, f2)
    fails = []
    ok, e = guard(cf.writefile, f1)
    if not ok:
        return [exc_failure("writefile", e)]
    ok, r1 = guard(columnfile.columnfile, f1)
    if not ok:
        rm(f1)
        return [exc_failure("columnfile(file)", r1)]
    if list(r1.titles) != list(titles):
        fails.append(fail("titles", "titles read back %s, written %s" % (r1.titles, titles), route="text"))
    elif r1.nrows != len(arrays[titles[0]]) or r1.ncols != len(titles):
        fails.append(fail("shape", "read back %d rows x %d cols, written %d x %d" %
                          (r1.nrows, r1.ncols, len(arrays[titles[0]]), len(titles)), route="text"))
    else:
        for t in titles:
            fmt = DOC_FORMATS.get(t, "%f")
            got = np.asarray(r1.getcolumn(t), float)
            for i, (w, g) in enumerate(zip(arrays[t], got)):
                tol = fmt_tolerance(fmt, float(w))
                if not abs(float(w) - float(g)) <= tol:
                    fails.append(fail("precision", "column %r (format %s) row %d: wrote %r read %r (allowed %g)" %
                                      (t, fmt, i, float(w), float(g), tol), route="text", fmt=fmt))
                    break
    rp = r1.parameters.get_parameters()
    for k, v in pars.items():
        if k not in rp:
            fails.append(fail("parameter", "header parameter %r lost" % k, route="text"))
        elif not par_equal(rp[k], v):
            fails.append(fail("parameter", "header parameter %r: wrote %r (%s) read %r (%s)" %
                              (k, v, type(v).__name__, rp[k], type(rp[k]).__name__), route="text"))
    # second cycle is the identity
    if not fails:
        ok, e = guard(r1.writefile, f2)
        if not ok:
            fails.append(exc_failure("writefile(2)", e))
        else:
            ok, r2 = guard(columnfile.columnfile, f2)
            if not ok:
                fails.append(exc_failure("columnfile(file 2)", r2))
            else:
                if list(r2.titles) != list(r1.titles):
                    fails.append(fail("cycle", "titles change on the second save/load cycle", route="text"))
                else:
                    for t in titles:
                        a = np.asarray(r1.getcolumn(t), float)
                        b = np.asarray(r2.getcolumn(t), float)
                        fmt = DOC_FORMATS.get(t, "%f")
                        # values already rounded to the format are reproduced up to one more rounding
                        tolv = np.array([fmt_tolerance(fmt, float(x)) for x in a])
                        if a.shape != b.shape or (np.abs(a - b) > tolv).any():
                            fails.append(fail("cycle", "column %r changes on the second cycle beyond precision" % t,
                                              route="text"))
                            break
                rp2 = r2.parameters.get_parameters()
                for k, v in pars.items():
                    if k not in rp2 or not par_equal(rp2[k], v):
                        fails.append(fail("cycle", "parameter %r changes on the second cycle" % k, route="text"))
    rm(f1, f2)
    if rec is not None:
        unknown = [t for t in titles if t not in DOC_FORMATS]
        expo = [t for t in titles if DOC_FORMATS.get(t, "").endswith("e") or
                DOC_FORMATS.get(t, "") == "%.12f"]
        allv = np.abs(np.concatenate([arrays[t] for t in titles]))
        allv = allv[allv > 0]
        decades = np.log10(allv.max() / allv.min()) if len(allv) else 0
        rec.case(case, bool(unknown) and bool(expo) and decades >= 6, ["colfile_text"])
    return fails


# ------------------------------------------------------------------ columnfile hdf

@st.composite
def hdfcases(draw):
    a = draw(colfiles())
    # history of writes into the same file: (group, same titles?, nrows)
    hist = draw(st.lists(st.tuples(st.sampled_from(["g1", "g1", "g2"]), st.booleans(), st.integers(1, 6)),
                         min_size=1, max_size=4))
    seed = draw(st.integers(0, 2 ** 31 - 1))
    compression = draw(st.sampled_from([None, None, "lzf", "gzip"]))
    return dict(cf=a, hist=hist, seed=seed, compression=compression)


def check_colfile_hdf(case, rec=None):
    from ImageD11 import columnfile
    fails = []
    base = case["cf"]
    titles = base["titles"]
    ints = _ints()
    rng = np.random.RandomState(case["seed"] % (2 ** 32))
    fn = tmpfile("c18.h5")
    rm(fn)
    last = {}          # group -> dict title -> array  (what must be read back)
    overwrite = False
    for step, (grp, same, nrows) in enumerate(case["hist"]):
        if step == 0:
            nrows = len(base["cols"][titles[0]])
            arrays = {t: np.array(base["cols"][t], float) for t in titles}
        else:
            arrays = {}
            for t in titles:
                v = rng.uniform(-1e6, 1e6, nrows)
                arrays[t] = np.rint(v) if t in ints else v
            if not same:
                arrays = {t: arrays[t] for t in titles[:max(1, len(titles) - 1)]}
        cf = columnfile.colfile_from_dict(dict(arrays))
        ok, e = guard(columnfile.colfile_to_hdf, cf, fn, grp, case.get("compression"))
        if not ok:
            # a dataset that cannot be resized: documented TypeError (contiguous data) or h5py's own error
            # (chunked data created with compression but without maxshape) - a clean rejection either way
            if isinstance(e, (TypeError, RuntimeError, ValueError)) and any(
                    w in str(e).lower() for w in ("different length", "resize", "dimension", "maximal size")) \
                    and grp in last and \
                    len(next(iter(last[grp].values()))) != nrows:
                if rec is not None:
                    rec.exclude("HDF overwrite with a different length rejected (documented TypeError, or h5py resize error)")
                # the group may now be partially written: not specified, stop this history here
                last.pop(grp, None)
                break
            fails.append(exc_failure("colfile_to_hdf", e))
            break
        if grp in last:
            overwrite = True
            old = last[grp]
            merged = dict(old)
            merged.update(arrays)
            # titles not rewritten keep their old data only if the length still matches
            last[grp] = {t: v for t, v in merged.items() if len(v) == nrows}
        else:
            last[grp] = dict(arrays)
        for g, exp in last.items():
            lens = _hdf_lengths(fn, g)
            if len(set(lens.values())) > 1:
                # a partial overwrite left columns of unequal length in the group: reading it is outside the contract
                if rec is not None:
                    rec.exclude("HDF group left with columns of unequal length after a partial overwrite")
                continue
            ok, r = guard(columnfile.colfile_from_hdf, fn, g)
            if not ok and isinstance(r, OSError) and "filter returned failure" in str(r) and \
                    case.get("compression") == "lzf" and overwrite:
                # h5py 3.16 / HDF5 2.0 in this sandbox cannot read back an lzf chunk that was overwritten in place
                # after first holding incompressible data; reproduced with h5py alone (tools/h5py_lzf_overwrite.py)
                if rec is not None:
                    rec.exclude("h5py/HDF5 lzf filter fails to read a chunk overwritten in place (dependency defect, "
                                "reproduced without ImageD11)")
                continue
            if not ok:
                fails.append(exc_failure("colfile_from_hdf", r))
                continue
            if not set(exp).issubset(set(r.titles)):
                fails.append(fail("hdf_titles", "group %s: titles read %s, written %s" % (g, r.titles, sorted(exp)),
                                  route="hdf"))
                continue
            for t, w in exp.items():
                got = np.asarray(r.getcolumn(t))
                if t in ints:
                    if got.dtype.kind != "i" or not np.array_equal(got, w.astype(np.int64)):
                        fails.append(fail("hdf_values", "integer column %r read back as %s %s, written %s" %
                                          (t, got.dtype, got[:4], w[:4]), route="hdf"))
                        break
                elif got.shape != w.shape or not np.array_equal(got.astype(float), w):
                    fails.append(fail("hdf_values", "column %r not bit-exact through HDF" % t, route="hdf"))
                    break
        if fails:
            break
    # other writers/readers on a fresh file
    if not fails:
        fn2 = tmpfile("c18_b.h5")
        rm(fn2)
        arrays = {t: np.array(base["cols"][t], float) for t in titles}
        cf = columnfile.colfile_from_dict(dict(arrays))
        ok, e = guard(columnfile.colfileobj_to_hdf, cf, fn2, "peaks")
        if not ok:
            fails.append(exc_failure("colfileobj_to_hdf", e))
        else:
            for reader in ("colfile_from_hdf", "columnfile", "mmap_h5colf"):
                if reader == "colfile_from_hdf":
                    ok, r = guard(columnfile.colfile_from_hdf, fn2)
                elif reader == "columnfile":
                    ok, r = guard(columnfile.columnfile, fn2)
                else:
                    ok, r = guard(columnfile.mmap_h5colf, fn2, "peaks")
                if not ok:
                    fails.append(exc_failure(reader, r))
                    continue
                if set(r.titles) != set(titles):
                    fails.append(fail("hdf_titles", "%s: titles %s, written %s" % (reader, r.titles, titles),
                                      route=reader))
                    continue
                for t in titles:
                    got = np.asarray(r.getcolumn(t))
                    w = arrays[t]
                    good = np.array_equal(got.astype(float), w) and ((t not in ints) or got.dtype.kind == "i")
                    if not good:
                        fails.append(fail("hdf_values", "%s: column %r differs (dtype %s)" % (reader, t, got.dtype),
                                          route=reader))
                        break
                del r
        rm(fn2)
    rm(fn)
    if rec is not None:
        rec.case(case, overwrite, ["colfile_hdf"] + (["hdf_overwrite"] if overwrite else []))
    return fails


def _hdf_lengths(fn, g):
    import h5py
    with h5py.File(fn, "r") as h:
        return {t: h[g][t].shape[0] for t in h[g]}


# ------------------------------------------------------------------ parameters

def check_pars(case, rec=None):
    from ImageD11 import parameters
    pars = clean_pars(case, rec)
    fn, fn2 = tmpfile("c18.par"), tmpfile("c18_2.par")
    rm(fn, fn2)
    p = parameters.parameters(**pars)
    fails = []
    ok, e = guard(p.saveparameters, fn)
    if not ok:
        return [exc_failure("saveparameters", e)]
    for route in ("loadparameters", "read_par_file", "from_file"):
        if route == "loadparameters":
            q = parameters.parameters()
            ok, e = guard(q.loadparameters, fn)
        elif route == "read_par_file":
            ok, q = guard(parameters.read_par_file, fn)
            e = q
        else:
            ok, q = guard(parameters.parameters.from_file, fn)
            e = q
        if not ok:
            fails.append(exc_failure(route, e))
            continue
        got = q.get_parameters()
        if set(got) != set(pars):
            fails.append(fail("parnames", "%s: names read %s, written %s" % (route, sorted(got), sorted(pars)),
                              route=route))
            continue
        for k, v in pars.items():
            if not par_equal(got[k], v):
                fails.append(fail("parvalue", "%s: %r wrote %r (%s) read %r (%s)" %
                                  (route, k, v, type(v).__name__, got[k], type(got[k]).__name__), route=route))
                break
    # second cycle
    if not fails:
        q.saveparameters(fn2)
        with open(fn) as a, open(fn2) as b:
            if a.read() != b.read():
                fails.append(fail("cycle", "parameter file changes on the second save", route="pars"))
    rm(fn, fn2)
    if rec is not None:
        kinds = set(type(v).__name__ for v in pars.values())
        rec.case(case, len(pars) >= 2 and len(kinds) >= 2, ["parameters"])
    return fails


# ------------------------------------------------------------------ grains

NAMEALPHA = list("abcUBIxyz019:._-/ ")


@st.composite
def grainlists(draw):
    n = draw(st.integers(1, 8))
    out = []
    for _ in range(n):
        fam, cell = draw(gens.cells())
        U = draw(gens.rotations())
        t = draw(st.one_of(st.none(), st.lists(st.one_of(st.just(0.0), st.floats(-2000, 2000, allow_nan=False,
                                                                              width=64)), min_size=3, max_size=3)))
        name = draw(st.one_of(st.none(), st.text(alphabet=st.sampled_from(NAMEALPHA), min_size=1, max_size=12)))
        npks = draw(st.one_of(st.none(), st.integers(0, 10 ** 6)))
        nuniq = draw(st.one_of(st.none(), st.integers(0, 10 ** 6)))
        out.append(dict(cell=[float(x) for x in cell], U=U, t=t, name=name, npks=npks, nuniq=nuniq))
    return out


@st.composite
def grainlists_long(draw):
    """Lists long enough for names/keys with two or three digits ('10' sorts before '2' as text)."""
    n = draw(st.one_of(st.integers(9, 30), st.sampled_from([10, 11, 12, 99, 100, 101, 120])))
    seed = draw(st.integers(0, 2 ** 31 - 1))
    named = draw(st.booleans())
    rng = np.random.RandomState(seed)
    out = []
    for i in range(n):
        a = float(rng.uniform(3, 12))
        cell = [a, a * float(rng.uniform(0.8, 1.3)), a * float(rng.uniform(0.8, 1.5)), 90.0, float(rng.uniform(90, 115)), 90.0]
        U = gens.rotation_from_seed(int(rng.randint(0, 2 ** 31 - 1)))
        t = [float(x) for x in rng.uniform(-500, 500, 3)] if rng.rand() < 0.8 else None
        out.append(dict(cell=cell, U=[[float(x) for x in r] for r in np.asarray(U)], t=t,
                        name=("g%d:%d" % (n, i)) if named else None,
                        npks=int(rng.randint(0, 10 ** 5)) if rng.rand() < 0.7 else None,
                        nuniq=int(rng.randint(0, 10 ** 5)) if rng.rand() < 0.5 else None))
    return out


def build_grains(case):
    from ImageD11 import grain
    gl = []
    for g in case:
        ubi = np.linalg.inv(np.asarray(g["U"], float) @ gens.busing_levy_B(g["cell"]))
        gr = grain.grain(ubi, g["t"])
        if g["name"] is not None and g["name"].strip():
            gr.name = g["name"]
        if g["npks"] is not None:
            gr.npks = g["npks"]
        if g["nuniq"] is not None:
            gr.nuniq = g["nuniq"]
        gl.append(gr)
    return gl


def check_grains(case, rec=None):
    from ImageD11 import grain, indexing
    fails = []
    gl = build_grains(case)
    fn, fh, fu = tmpfile("c18.map"), tmpfile("c18_g.h5"), tmpfile("c18.ubi")
    rm(fn, fh, fu)
    # ---- text
    ok, e = guard(grain.write_grain_file, fn, gl)
    if not ok:
        fails.append(exc_failure("write_grain_file", e))
    else:
        ok, rd = guard(grain.read_grain_file, fn)
        if not ok:
            fails.append(exc_failure("read_grain_file", rd))
        elif len(rd) != len(gl):
            fails.append(fail("grain_count", "wrote %d grains, read %d" % (len(gl), len(rd)), route="text"))
        else:
            for i, (w, r) in enumerate(zip(gl, rd)):
                if not np.all(np.abs(r.ubi - w.ubi) <= 0.5e-8 * np.abs(w.ubi) * (1 + 1e-9) + 1e-300):
                    fails.append(fail("grain_ubi", "grain %d: UBI not preserved to 9 significant digits (order?)" % i,
                                      route="text"))
                    break
                if (w.translation is None) != (r.translation is None):
                    fails.append(fail("grain_t", "grain %d: translation %r read as %r" %
                                      (i, w.translation, r.translation), route="text"))
                    break
                if w.translation is not None and not np.all(
                        np.abs(r.translation - w.translation) <= 0.5e-5 * np.abs(w.translation) * (1 + 1e-9)):
                    fails.append(fail("grain_t", "grain %d: translation %s read as %s (6 significant digits)" %
                                      (i, w.translation, r.translation), route="text"))
                    break
                for attr in ("name", "npks", "nuniq"):
                    hw, hr = hasattr(w, attr), hasattr(r, attr)
                    if hw != hr:
                        fails.append(fail("grain_attr", "grain %d: %s written=%s read=%s (%r)" %
                                          (i, attr, hw, hr, getattr(w, attr, None)), route="text", attr=attr))
                        break
                    if hw:
                        a, b = getattr(w, attr), getattr(r, attr)
                        same = (str(a).strip() == str(b).strip()) if attr == "name" else (int(a) == int(b))
                        if not same:
                            fails.append(fail("grain_attr", "grain %d: %s wrote %r read %r" % (i, attr, a, b),
                                              route="text", attr=attr))
                            break
                if fails:
                    break
    # ---- hdf
    def cmp_h5(written, rd, what):
        if len(rd) != len(written):
            fails.append(fail("grain_count", "h5%s: wrote %d grains, read %d" % (what, len(written), len(rd)), route="h5"))
            return
        for i, (w, r) in enumerate(zip(written, rd)):
            if not np.array_equal(r.ubi, w.ubi):
                fails.append(fail("grain_ubi", "h5%s grain %d: UBI not exact" % (what, i), route="h5"))
                return
            if (w.translation is None) != (r.translation is None) or (
                    w.translation is not None and not np.array_equal(r.translation, w.translation)):
                fails.append(fail("grain_t", "h5%s grain %d: translation %r read %r" %
                                  (what, i, w.translation, r.translation), route="h5"))
                return
            for attr in ("name", "npks", "nuniq"):
                hw, hr = hasattr(w, attr), hasattr(r, attr)
                if hw != hr or (hw and not (getattr(w, attr) == getattr(r, attr))):
                    fails.append(fail("grain_attr", "h5%s grain %d: %s wrote %r read %r" %
                                      (what, i, attr, getattr(w, attr, None), getattr(r, attr, None)), route="h5",
                                      attr=attr))
                    return
    if len(case) % 2 == 0:
        # HDF5 strings are UTF-8: phase labels with Greek letters, accents, a degree sign or CJK characters
        gl = build_grains(case)
        for k, g_ in enumerate(gl):
            if getattr(g_, "name", None):
                g_.name = g_.name.strip() + ["_\u03b1", "_\u00e9t\u00e9", "_45\u00b0", "_\u4e2d\u6587"][k % 4]
    ok, e = guard(grain.write_grain_file_h5, fh, gl)
    if not ok:
        fails.append(exc_failure("write_grain_file_h5", e))
    else:
        ok, rd = guard(grain.read_grain_file_h5, fh)
        if not ok:
            fails.append(exc_failure("read_grain_file_h5", rd))
        else:
            cmp_h5(gl, rd, "")
        if not fails:
            # the same file saved again with another (shorter, re-counted) list: either refused, or what is read back
            # is the second list
            gl2 = build_grains(case)[:max(1, len(gl) // 2)]
            for k, g2 in enumerate(gl2):
                g2.npks = 7 + k
                if k % 2:
                    g2.translation = None
            ok, e = guard(grain.write_grain_file_h5, fh, gl2)
            if not ok:
                if isinstance(e, (ValueError, OSError, RuntimeError)):
                    if rec is not None:
                        rec.exclude("second write_grain_file_h5 into the same file refused (h5py: name already exists)")
                else:
                    fails.append(exc_failure("write_grain_file_h5 (second save)", e))
            else:
                ok, rd = guard(grain.read_grain_file_h5, fh)
                if not ok:
                    fails.append(exc_failure("read_grain_file_h5 (second save)", rd))
                else:
                    cmp_h5(gl2, rd, " second save")
    # ---- ubi file (6 decimals)
    # a ubi file is a list of matrices: matrices of either hand are kept as they are (every second list holds the
    # inverse-handed copy of its first matrix, as a file from an indexing program with another axis convention does)
    ubl = [np.array(g.ubi, float) for g in gl]
    if len(ubl) % 2 == 0 and ubl:
        ubl.append(-ubl[0])
    ok, e = guard(indexing.write_ubi_file, fu, ubl)
    if not ok:
        fails.append(exc_failure("write_ubi_file", e))
    else:
        ok, rd = guard(indexing.readubis, fu)
        if not ok:
            fails.append(exc_failure("readubis", rd))
        elif len(rd) != len(ubl) or any(np.abs(np.asarray(r) - w).max() > 0.5e-6 * (1 + 1e-9) + 1e-12
                                        for r, w in zip(rd, ubl)):
            fails.append(fail("ubifile", "ubi file does not round trip to 6 decimals in order", route="ubi"))
    rm(fn, fh, fu)
    if rec is not None:
        c = [dict(g, U=np.asarray(g["U"])) for g in case]
        rec.case(c, len(case) >= 2, ["grains"] + (["grains:>10"] if len(case) > 10 else []) + (["grains:>100"] if len(case) > 100 else []))
    return fails


# ------------------------------------------------------------------ sparse frames

@st.composite
def framecases(draw):
    ns = draw(st.integers(1, 40))
    nf = draw(st.integers(1, 40))
    seed = draw(st.integers(0, 2 ** 31 - 1))
    dtype = draw(st.sampled_from(["uint16", "float32", "uint32"]))
    fill = draw(st.sampled_from([0.05, 0.3, 1.0]))
    how = draw(st.sampled_from(["mask", "cut", "plain", "plain32"]))
    extra = draw(st.booleans())
    return dict(ns=ns, nf=nf, seed=seed, dtype=dtype, fill=fill, how=how, extra=extra)


def check_frame(case, rec=None):
    import h5py
    from ImageD11 import sparseframe
    rng = np.random.RandomState(case["seed"] % (2 ** 32))
    shape = (case["ns"], case["nf"])
    data = (rng.randint(1, 60000, shape)).astype(case["dtype"])
    mask = rng.random_sample(shape) < case["fill"]
    if not mask.any():
        mask[rng.randint(shape[0]), rng.randint(shape[1])] = True
    how = case["how"]
    if how == "cut" and case["dtype"] == "uint32":
        how = "mask"
    hdr = {"threshold": 5, "filename": "img0001.edf"}
    if how == "mask":
        ok, fr = guard(sparseframe.from_data_mask, mask, data, hdr)
    elif how == "cut":
        d = np.where(mask, data, 0).astype(case["dtype"])
        ok, fr = guard(sparseframe.from_data_cut, d, 0, hdr)
    elif how == "plain32":
        # a frame of a detector (or a stitched image) too large for 16 bit indices: uint32 indices, pixels on both
        # sides of 65536 along one axis
        i, j = np.nonzero(mask)
        big = 70000 + case["seed"] % 30000
        spread = np.sort(np.unique(np.concatenate([[0, 65535, 65536, big - 1], rng.randint(0, big, 64)])))
        while len(spread) < max(shape):
            spread = np.sort(np.unique(np.concatenate([spread, rng.randint(0, big, 64)])))
        if case["seed"] % 2:
            i = spread[np.linspace(0, len(spread) - 1, shape[0]).astype(int)][i] if shape[0] > 1 else i + 65536
            bshape = (big, shape[1])
        else:
            j = spread[np.linspace(0, len(spread) - 1, shape[1]).astype(int)][j] if shape[1] > 1 else j + 65536
            bshape = (shape[0], big)
        ok, fr = guard(sparseframe.sparse_frame, i.astype(np.uint32), j.astype(np.uint32), bshape, itype=np.uint32,
                       pixels={"intensity": data[mask]})
        shape = bshape
    else:
        i, j = np.nonzero(mask)
        ok, fr = guard(sparseframe.sparse_frame, i.astype(np.uint16), j.astype(np.uint16), shape,
                       pixels={"intensity": data[mask]})
    if not ok:
        return [exc_failure("make frame (%s)" % how, fr)]
    if case["extra"]:
        fr.set_pixels("labels", np.arange(fr.nnz, dtype=np.int32), {"nlabel": int(fr.nnz)})
    fn = tmpfile("c18_f.h5")
    rm(fn)
    fails = []
    with h5py.File(fn, "w") as h:
        g = h.create_group("frame")
        ok, e = guard(fr.to_hdf_group, g)
        if not ok:
            fails.append(exc_failure("to_hdf_group", e))
    if not fails:
        with h5py.File(fn, "r") as h:
            ok, r = guard(sparseframe.from_hdf_group, h["frame"])
        if not ok:
            fails.append(exc_failure("from_hdf_group", r))
        else:
            if tuple(int(x) for x in r.shape) != shape or r.nnz != fr.nnz or \
                    not np.array_equal(r.row, fr.row) or not np.array_equal(r.col, fr.col) or \
                    r.row.dtype != fr.row.dtype or r.col.dtype != fr.col.dtype:
                fails.append(fail("frame_index", "sparse frame indices/shape differ after HDF round trip", route="frame"))
            elif set(r.pixels) != set(fr.pixels):
                fails.append(fail("frame_names", "pixel arrays %s read, %s written" % (sorted(r.pixels),
                                  sorted(fr.pixels)), route="frame"))
            else:
                for k in fr.pixels:
                    if r.pixels[k].dtype != fr.pixels[k].dtype or not np.array_equal(r.pixels[k], fr.pixels[k]):
                        fails.append(fail("frame_pixels", "pixel array %r differs after HDF round trip" % k,
                                          route="frame"))
                    for mk, mv in fr.meta.get(k, {}).items():
                        if mk not in r.meta.get(k, {}) or r.meta[k][mk] != mv:
                            fails.append(fail("frame_meta", "meta %s[%s] wrote %r read %r" %
                                              (k, mk, mv, r.meta.get(k, {}).get(mk)), route="frame"))
                if not fails and how != "plain32" and \
                        not np.array_equal(r.to_dense("intensity"), np.where(mask, data, 0)):
                    fails.append(fail("frame_dense", "dense image differs after HDF round trip", route="frame"))
    rm(fn)
    if rec is not None:
        rec.case(case, fr.nnz >= 2, ["frame:" + how])
    return fails


REG_FRAME = [dict(ns=4, nf=5, seed=1, dtype="uint16", fill=0.3, how="mask", extra=False)]


def run_shard(rec):
    quick = rec.tier == "quick"
    k = 1 if quick else 8
    if rec.shard == 0:
        run_cases(rec, "frame", REG_FRAME, lambda c: check_frame(c, rec))
    hyp_run(rec, "colfile_text", colfiles(text=True), lambda c: check_colfile_text(c, rec), max_examples=120 * k)
    hyp_run(rec, "colfile_hdf", hdfcases(), lambda c: check_colfile_hdf(c, rec), max_examples=40 * k)
    hyp_run(rec, "parameters", st.dictionaries(parnames(), parvalues(), min_size=0, max_size=8),
            lambda c: check_pars(c, rec), max_examples=150 * k)
    hyp_run(rec, "grains", grainlists(), lambda c: check_grains(c, rec), max_examples=50 * k)
    hyp_run(rec, "grains", grainlists_long(), lambda c: check_grains(c, rec), max_examples=8 * k, shrink=False)
    hyp_run(rec, "frame", framecases(), lambda c: check_frame(c, rec), max_examples=60 * k)


def replay(sub, case, rec):
    return {"colfile_text": check_colfile_text, "colfile_hdf": check_colfile_hdf, "parameters": check_pars,
            "grains": check_grains, "frame": check_frame}[sub](case, rec)
