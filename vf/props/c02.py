"""C02 - g-vectors obey Bragg/Ewald laws and the diffraction geometry is invertible."""
import numpy as np
from hypothesis import strategies as st
from vf import oracles as O
from vf.props import c01
from vf.runner import hyp_run, run_cases, guard, fail, exc_failure

THOROUGH_SCALE = 5      # multiplies every generated-case budget of the thorough tier
RULE = ("(a) peaks (tth in (0,180), eta, omega) x wavelength x wedge x chi x omegasign: |g| = 2 sin(theta)/lambda on "
        "every route, invariance of |g|, rigid rotation with omega; (b) g-vectors: uniform directions x |g| in "
        "[0, 2.4/lambda] with 15% inside the blind cone (|g_perp| <= 0.02|g|), a class with |g| > 2/lambda, g on the "
        "axis and g = 0, x wedge/chi on/off: validity flags against a closed-form Ewald reachability criterion and "
        "round trip of both solutions; (c) detector sets from C01's switch lattice x (tth<=60 deg, eta, omega, grain "
        "position): projection onto the detector and back through the Python and the compiled route, and against the harness's own ray trace; (both with keyword arguments and with the whole parameter dictionary, omegasign included, splatted in as columnfile and refinegrains do); (e) columnfile columns (fast and slow routes): ds = 2 sin(theta)/lambda and |g| = ds for the object's current parameters after update / in-place edit of wavelength, wedge, chi, omegasign, distance, centre, t_x / update, equal to what a fresh object computes, and updateGV reproducing the g columns; (d) gv_general with a general unit axis and pre/post rotations: rotate_vectors / to_matrix / axis_from_matrix / k_to_g against Rodrigues matrices, g_to_k solutions against the Laue condition and the reachability criterion; non-trivial = "
        "wedge!=0 and chi!=0, or a blind-cone / over-range vector in the batch, or t!=0 with a tilt; distinct = hash "
        "of the case")
ASSUMPTIONS = ["g-vectors whose reachability measure |m| lies within 1e-9 of 1 (tangent to the Ewald sphere) may be "
               "flagged either way (excluded, counted)",
               "round trip tolerance 1e-9/lambda on g; detector round trip 1e-9 deg on tth and sin(tth)*eta, 1e-6 px "
               "against the ray trace",
               "detector projection is asserted for forward rays only (tth <= 60 deg with tilts <= 0.2 rad)",
               "gv_general.g_to_k with a general axis is tested without pre/post rotations (their convention is only "
               "defined by the way transform.uncompute_g_vectors calls it, which the 'uncompute' sub-check covers)"]


def shard_layout(tier):
    return [("opt", None)] * (8 if tier == "quick" else 16)


# ------------------------------------------------------------------ (b) invertibility + validity

@st.composite
def gcases(draw):
    wv = draw(st.floats(0.1, 1.5, allow_nan=False))
    wedge = draw(st.sampled_from([0.0, 0.0, 1.0])) * draw(st.floats(-30, 30, allow_nan=False))
    chi = draw(st.sampled_from([0.0, 0.0, 1.0])) * draw(st.floats(-30, 30, allow_nan=False))
    seed = draw(st.integers(0, 2 ** 31 - 1))
    return dict(wv=wv, wedge=wedge, chi=chi, seed=seed)


def make_g(case, n=400):
    rng = np.random.RandomState(case["seed"] % (2 ** 32))
    wv = case["wv"]
    d = rng.standard_normal((3, n))
    d /= np.sqrt((d * d).sum(axis=0))
    mod = rng.uniform(0, 2.4 / wv, n)
    g = d * mod
    k = n // 7
    g[:2, :k] *= 0.02 * rng.uniform(0, 1, k)          # blind cone around the rotation axis
    g[:2, k:k + 3] = 0.0                               # exactly on the axis
    g[:, k + 3] = 0.0                                  # the origin
    g[:, k + 4:k + 10] *= (2.0 / wv) / np.sqrt((g[:, k + 4:k + 10] ** 2).sum(axis=0)) * \
        rng.uniform(0.999999, 1.000001, 6)             # |g| ~ 2/lambda
    return g


def reach_measure(g, wv, wedge, chi):
    """m in [-1,1] iff some omega puts g on the Ewald sphere: k_x = a.Rz(omega).g = -lambda |g|^2/2
    with a = C.W.x ;  range over omega of a.Rz(omega).g = a_z g_z +- |a_perp||g_perp|"""
    a = O.geo_C(chi) @ (O.geo_W(wedge) @ np.array([1.0, 0, 0]))
    target = -wv * (g * g).sum(axis=0) / 2
    mid = a[2] * g[2]
    half = np.hypot(a[0], a[1]) * np.hypot(g[0], g[1])
    with np.errstate(divide="ignore", invalid="ignore"):
        m = (target - mid) / half
    m = np.where(half == 0, np.inf, m)
    return m


def check_g(case, rec=None):
    from ImageD11 import transform, gv_general
    wv, wedge, chi = case["wv"], case["wedge"], case["chi"]
    g = make_g(case)
    # batch sizes: usually 400, sometimes 1, 2, 3 (a 3 x 3 block), 4 or 7 vectors
    nsub = [400, 400, 3, 400, 1, 2, 400, 3, 4, 7][case["seed"] % 10]
    if nsub < g.shape[1]:
        g = np.ascontiguousarray(g[:, np.random.RandomState(case["seed"] % 9973).permutation(g.shape[1])[:nsub]])
    n = g.shape[1]
    fails = []
    ok, r = guard(transform.uncompute_g_vectors, g.copy(), wv, wedge, chi)
    if not ok:
        return [exc_failure("uncompute_g_vectors", r)]
    tth, (e1, e2), (o1, o2) = r
    tth, e1, e2, o1, o2 = [np.asarray(x, float) for x in (tth, e1, e2, o1, o2)]
    m = reach_measure(g, wv, wedge, chi)
    can = np.abs(m) < 1 - 1e-9
    cannot = np.abs(m) > 1 + 1e-9
    flagged = ~np.isfinite(tth) | (tth == 0) | ~np.isfinite(e1) | ~np.isfinite(o1) | ~np.isfinite(e2) | ~np.isfinite(o2)
    # invalid vectors are marked by tth == 0 (or NaN when |g| > 2/lambda); a finite non-zero tth together with
    # non-finite eta/omega is neither a flag nor a usable answer
    nanang = np.isfinite(tth) & (tth != 0) & ~(np.isfinite(e1) & np.isfinite(o1) & np.isfinite(e2) & np.isfinite(o2))
    if nanang.any():
        i = int(np.argmax(nanang))
        fails.append(fail("nan_angles", "g=%s (lambda %.4f wedge %.3f chi %.3f, m=%.6g): non-finite angles returned "
                          "(tth=%r eta=%r omega=%r) instead of the invalid marker" %
                          (g[:, i], wv, wedge, chi, m[i], tth[i], e1[i], o1[i]), fn="uncompute_g_vectors"))
    # a diffracting vector with |g|>0 has tth>0, so tth==0 is the library's "invalid" marker
    bad = flagged & can & ((g * g).sum(axis=0) > 0)
    if bad.any():
        i = int(np.argmax(bad))
        fails.append(fail("false_invalid", "g=%s (lambda %.4f wedge %.3f chi %.3f) can reach the Ewald sphere "
                          "(m=%.9f) but is flagged invalid (tth=%r)" % (g[:, i], wv, wedge, chi, m[i], tth[i]),
                          fn="uncompute_g_vectors"))
    bad = (~flagged) & cannot
    if bad.any():
        i = int(np.argmax(bad))
        fails.append(fail("false_valid", "g=%s (lambda %.4f wedge %.3f chi %.3f) can never diffract (m=%.6g) but "
                          "got angles tth=%r eta=%r omega=%r" % (g[:, i], wv, wedge, chi, m[i], tth[i], e1[i], o1[i]),
                          fn="uncompute_g_vectors"))
    usable = (~flagged) & can
    tol = 1e-9 / wv
    if usable.any():
        for lab, e, o in (("first", e1, o1), ("second", e2, o2)):
            ok, gb = guard(transform.compute_g_vectors, tth[usable], e[usable], o[usable], wv, wedge, chi)
            if not ok:
                fails.append(exc_failure("compute_g_vectors", gb))
                continue
            err = np.abs(np.asarray(gb) - g[:, usable]).max()
            if not err <= tol:
                fails.append(fail("roundtrip", "%s solution: compute_g_vectors(uncompute_g_vectors(g)) differs from "
                                  "g by %.3g (lambda %.4f wedge %.3f chi %.3f)" % (lab, err, wv, wedge, chi),
                                  fn="uncompute_g_vectors", sol=lab))
            # independent forward model
            p = dict(wedge=wedge, chi=chi)
            gi = O.geo_g_from_k(O.geo_k(tth[usable], e[usable], wv), o[usable], p)
            err = np.abs(gi - g[:, usable]).max()
            if not err <= tol:
                fails.append(fail("roundtrip_indep", "%s solution (tth,eta,omega) does not reproduce g in the "
                                  "harness forward model: %.3g (wedge %.3f chi %.3f)" % (lab, err, wedge, chi),
                                  fn="uncompute_g_vectors", sol=lab))
        # Bragg: tth from |g|
        th_exp = 2 * np.degrees(np.arcsin(np.sqrt((g[:, usable] ** 2).sum(axis=0)) * wv / 2))
        if np.abs(tth[usable] - th_exp).max() > 1e-9:
            fails.append(fail("bragg", "uncompute_g_vectors: tth is not 2 asin(lambda |g|/2)", fn="uncompute_g_vectors"))
        # the two solutions are different settings unless tangent
        same = np.abs(O.eta_diff(o1[usable], o2[usable])) < 1e-7
        if (same & (np.abs(m[usable]) < 0.99)).any():
            fails.append(fail("solutions", "both omega solutions coincide for a non-tangent g-vector",
                              fn="uncompute_g_vectors"))
    # gv_general.g_to_k direct: valid flag agrees with the criterion (axis along -z as transform uses it)
    post = gv_general.wedgechi(wedge=wedge, chi=chi) if (wedge != 0 or chi != 0) else None
    ok, r = guard(gv_general.g_to_k, g.copy(), wv, [0, 0, -1], None, post)
    if ok:
        valid = np.asarray(r[2], bool)
        if (valid & cannot).any() or ((~valid) & can & ((g * g).sum(axis=0) > 0)).any():
            fails.append(fail("g_to_k_valid", "gv_general.g_to_k valid flag disagrees with the Ewald criterion "
                              "(wedge %.3f chi %.3f)" % (wedge, chi), fn="g_to_k"))
        if not (np.isfinite(r[0][valid]).all() and np.isfinite(r[1][valid]).all()):
            fails.append(fail("g_to_k_nan", "gv_general.g_to_k returns non-finite angles flagged valid", fn="g_to_k"))
    else:
        fails.append(exc_failure("gv_general.g_to_k", r))
    if rec is not None:
        nband = int((~can & ~cannot).sum())
        if nband:
            rec.exclude("g-vector within 1e-9 of tangency to the Ewald sphere", nband)
        rec.count(n - 1)
        rec.case(case, (wedge != 0 and chi != 0) or bool(cannot.any()),
                 ["uncompute", "wedge" if wedge else "nowedge", "chi" if chi else "nochi"])
        rec.note("g_vectors_can_diffract", int(can.sum()))
        rec.note("g_vectors_cannot_diffract", int(cannot.sum()))
    return fails


# ------------------------------------------------------------------ (a) Bragg laws on forward routes

@st.composite
def peakcases(draw):
    wv = draw(st.floats(0.1, 1.5, allow_nan=False))
    wedge = draw(st.sampled_from([0.0, 1.0])) * draw(st.floats(-30, 30, allow_nan=False))
    chi = draw(st.sampled_from([0.0, 1.0])) * draw(st.floats(-30, 30, allow_nan=False))
    seed = draw(st.integers(0, 2 ** 31 - 1))
    sign = draw(st.sampled_from([1.0, -1.0]))
    delta = draw(st.floats(-400, 400, allow_nan=False))
    return dict(wv=wv, wedge=wedge, chi=chi, seed=seed, sign=sign, delta=delta)


def check_peaks(case, rec=None):
    from ImageD11 import transform, cImageD11
    rng = np.random.RandomState(case["seed"] % (2 ** 32))
    n = 200
    wv, wedge, chi, sign, delta = case["wv"], case["wedge"], case["chi"], case["sign"], case["delta"]
    tth = rng.uniform(0, 180, n)
    tth[:5] = [1e-6, 1e-3, 179.999, 90.0, 45.0]
    eta = rng.uniform(-180, 180, n)
    om = rng.uniform(-720, 720, n)
    fails = []
    dsexp = 2 * np.sin(np.radians(tth) / 2) / wv
    Rm = O.rot_z(-np.radians(delta))
    tol = 1e-11 / wv
    ok, g0 = guard(transform.compute_g_vectors, tth, eta, om, wv, wedge, chi)
    if not ok:
        return [exc_failure("compute_g_vectors", g0)]
    g0 = np.asarray(g0)
    if np.abs(np.sqrt((g0 * g0).sum(axis=0)) - dsexp).max() > tol:
        fails.append(fail("bragg", "transform.compute_g_vectors: |g| != 2 sin(theta)/lambda (wedge %.3f chi %.3f)"
                          % (wedge, chi), route="compute_g_vectors"))
    ok, g1 = guard(transform.compute_g_vectors, tth, eta, om + delta, wv, wedge, chi)
    if ok and np.abs(np.asarray(g1) - Rm @ g0).max() > tol * 10:
        fails.append(fail("rigid", "transform.compute_g_vectors: g(omega+d) != Rz(-d).g(omega)",
                          route="compute_g_vectors"))
    ok, g2 = guard(transform.compute_g_vectors, tth, eta, om, wv, 0.0, 0.0)
    if ok and np.abs(np.sqrt((np.asarray(g2) ** 2).sum(axis=0)) - np.sqrt((g0 * g0).sum(axis=0))).max() > tol:
        fails.append(fail("invariance", "|g| depends on wedge/chi", route="compute_g_vectors"))
    # the documented use of cached k-vectors: the same k array rotated to several omega sets
    ok, kv = guard(transform.compute_k_vectors, tth, eta, wv)
    if ok:
        kv = np.asarray(kv, float)
        kkeep = kv.copy()
        ok, ga = guard(transform.compute_g_from_k, kv, om, wedge, chi)
        ok2, gb = guard(transform.compute_g_from_k, kv, om + delta, wedge, chi)
        ok3, gc = guard(transform.compute_g_from_k, kv, om, wedge, chi)
        if ok and ok2 and ok3:
            if not np.array_equal(kv, kkeep):
                fails.append(fail("inputs", "compute_g_from_k modified the k-vectors it was given (wedge %.3f chi %.3f)" %
                                  (wedge, chi), route="compute_g_from_k"))
            if np.abs(np.asarray(ga) - g0).max() > tol or np.abs(np.asarray(gc) - g0).max() > tol or \
                    np.abs(np.asarray(gb) - Rm @ g0).max() > tol * 10:
                fails.append(fail("rigid", "compute_g_from_k on one cached k array: first, shifted-omega and repeated "
                                  "calls are not g, Rz(-d).g, g (wedge %.3f chi %.3f)" % (wedge, chi),
                                  route="compute_g_from_k"))
        else:
            fails.append(exc_failure("compute_g_from_k", ga if not ok else (gb if not ok2 else gc)))
    # C route from lab coordinates of a point on the scattered ray, no translation
    L = rng.uniform(1e4, 1e6, n)
    xyz = np.array([np.cos(np.radians(tth)), -np.sin(np.radians(tth)) * np.sin(np.radians(eta)),
                    np.sin(np.radians(tth)) * np.cos(np.radians(eta))]) * L
    xyz = np.ascontiguousarray(xyz.T)
    outs = {}
    for s, d in ((sign, 0.0), (sign, delta), (-sign, 0.0)):
        out = np.full((n, 3), 9.9)
        ok, e = guard(cImageD11.compute_gv, xyz, om + d, s, wv, wedge, chi, np.zeros(3), out)
        if not ok:
            fails.append(exc_failure("cImageD11.compute_gv", e))
            break
        outs[(s, d)] = out.T
        if np.abs(np.sqrt((out * out).sum(axis=1)) - dsexp).max() > tol:
            fails.append(fail("bragg", "cImageD11.compute_gv: |g| != 2 sin(theta)/lambda (omegasign %g)" % s,
                              route="compute_gv"))
    if len(outs) == 3:
        Rs = O.rot_z(-np.radians(delta * sign))
        if np.abs(outs[(sign, delta)] - Rs @ outs[(sign, 0.0)]).max() > tol * 10:
            fails.append(fail("rigid", "cImageD11.compute_gv: g(omega+d) != Rz(-sign.d).g(omega) (omegasign %g)" %
                              sign, route="compute_gv"))
        # the library's own python route at omega*sign must agree
        gpy = np.asarray(transform.compute_g_vectors(tth, eta, om * sign, wv, wedge, chi))
        if np.abs(outs[(sign, 0.0)] - gpy).max() > tol:
            fails.append(fail("routes", "cImageD11.compute_gv differs from compute_g_vectors at omega*omegasign",
                              route="compute_gv"))
        out6 = np.full((n, 6), 1.1)
        ok, e = guard(cImageD11.compute_geometry, xyz, om, sign, wv, wedge, chi, np.zeros(3), out6)
        if ok:
            if np.abs(out6[:, 2] - dsexp).max() > tol or np.abs(out6[:, 0] - tth).max() > 1e-9:
                fails.append(fail("bragg", "cImageD11.compute_geometry: ds/tth disagree with Bragg's law",
                                  route="compute_geometry"))
        else:
            fails.append(exc_failure("cImageD11.compute_geometry", e))
    if rec is not None:
        rec.count(n - 1)
        rec.case(case, wedge != 0 and chi != 0, ["bragg"])
    return fails


# ------------------------------------------------------------------ (c) detector round trip

def check_detector(case, rec=None):
    from ImageD11 import transform
    p, _, _, _ = c01.params_from(case["index"], case["mseed"])
    rng = np.random.RandomState((case["mseed"] * 7919 + case["index"]) % (2 ** 32))
    n = 60
    tth = rng.uniform(0.01, 60, n)
    eta = rng.uniform(-180, 180, n)
    om = rng.uniform(-720, 720, n)
    if case["index"] % 4 == case["mseed"] % 4:
        om = np.rint(om).astype(np.int64)          # whole-degree scan positions as an integer array (np.arange)
    t = (p["t_x"], p["t_y"], p["t_z"])
    kw = {k: p[k] for k in ("y_center", "y_size", "tilt_y", "z_center", "z_size", "tilt_z", "tilt_x", "distance",
                            "o11", "o12", "o21", "o22")}
    fails = []
    ok, r = guard(transform.compute_xyz_from_tth_eta, tth, eta, om, t_x=t[0], t_y=t[1], t_z=t[2],
                  wedge=p["wedge"], chi=p["chi"], **kw)
    if not ok:
        return [exc_failure("compute_xyz_from_tth_eta", r)]
    fc, sc = np.asarray(r[0], float), np.asarray(r[1], float)
    ok, r2 = guard(transform.compute_tth_eta, [sc, fc], omega=om, t_x=t[0], t_y=t[1], t_z=t[2],
                   wedge=p["wedge"], chi=p["chi"], **kw)
    if not ok:
        fails.append(exc_failure("compute_tth_eta", r2))
    else:
        e1 = np.abs(np.asarray(r2[0]) - tth).max()
        e2 = np.abs(O.eta_diff(r2[1], eta) * np.sin(np.radians(tth))).max()
        if not (e1 <= 1e-8 and e2 <= 1e-8):
            fails.append(fail("detector_roundtrip", "compute_tth_eta(compute_xyz_from_tth_eta(tth,eta)) differs: "
                              "dtth %.3g deta %.3g; pars %s" % (e1, e2, {k: round(v, 5) for k, v in p.items()}),
                              fn="compute_xyz_from_tth_eta"))
    # the callers' convention (columnfile, refinegrains, fitting): omega already multiplied by omegasign and the whole
    # parameter dictionary - omegasign, wavelength and all - splatted into both functions
    pk = dict(p)
    ok, r3 = guard(transform.compute_xyz_from_tth_eta, tth, eta, om, **pk)
    if not ok:
        fails.append(exc_failure("compute_xyz_from_tth_eta(**parameters)", r3))
    else:
        ok, r4 = guard(transform.compute_tth_eta, [np.asarray(r3[1], float), np.asarray(r3[0], float)], omega=om, **pk)
        if not ok:
            fails.append(exc_failure("compute_tth_eta(**parameters)", r4))
        else:
            e1 = np.abs(np.asarray(r4[0]) - tth).max()
            e2 = np.abs(O.eta_diff(r4[1], eta) * np.sin(np.radians(tth))).max()
            e3 = max(np.abs(np.asarray(r3[0], float) - fc).max(), np.abs(np.asarray(r3[1], float) - sc).max())
            if not (e1 <= 1e-8 and e2 <= 1e-8 and e3 <= 1e-6):
                fails.append(fail("detector_roundtrip", "with the whole parameter dictionary passed (as columnfile and "
                                  "refinegrains do): compute_tth_eta(compute_xyz_from_tth_eta(tth,eta)) differs: dtth %.3g "
                                  "deta %.3g, detector position differs from the keyword call by %.3g px; pars %s" %
                                  (e1, e2, e3, {k: round(v, 5) for k, v in p.items()}), fn="parameter_dict"))
    # the compiled route must invert the projection as well (omega as observed = omega_eff / omegasign)
    ok, ct = guard(transform.Ctransform, dict(p))
    if ok:
        # a second detector / calibration alive in the same process (other wavelength, wedge, chi, rotation sense)
        # must not change what the first object computes
        guard(transform.Ctransform, dict(p, wavelength=p["wavelength"] * 1.6, wedge=p["wedge"] + 3.0, chi=p["chi"] - 2.0,
                                         omegasign=-p["omegasign"], distance=p["distance"] * 0.5))
        ok, geo = guard(lambda: ct.xyz2geometry(ct.sf2xyz(sc, fc), om / p["omegasign"], t[0], t[1], t[2]))
        if ok:
            geo = np.asarray(geo)
            e1 = np.abs(geo[:, 0] - tth).max()
            e2 = np.abs(O.eta_diff(geo[:, 1], eta) * np.sin(np.radians(tth))).max()
            e3 = np.abs(geo[:, 2] - 2 * np.sin(np.radians(tth) / 2) / p["wavelength"]).max()
            e4 = np.abs(np.sqrt((geo[:, 3:6] ** 2).sum(axis=1)) - geo[:, 2]).max()
            if not (e3 <= 1e-9 / p["wavelength"] and e4 <= 1e-9 / p["wavelength"]):
                fails.append(fail("detector_roundtrip_c", "Ctransform.xyz2geometry: ds differs from 2 sin(theta)/lambda of "
                                  "this object's wavelength by %.3g, |g| from ds by %.3g (a second Ctransform with other "
                                  "parameters exists)" % (e3, e4), fn="Ctransform.bragg"))
            if not (e1 <= 1e-8 and e2 <= 1e-8):
                fails.append(fail("detector_roundtrip_c", "Ctransform.xyz2geometry(sf2xyz(compute_xyz_from_tth_eta(tth,"
                                  "eta))) differs: dtth %.3g deta %.3g; pars %s" %
                                  (e1, e2, {k: round(v, 5) for k, v in p.items()}), fn="Ctransform"))
        else:
            fails.append(exc_failure("Ctransform round trip", geo))
    else:
        fails.append(exc_failure("Ctransform()", ct))
    # own ray trace
    P0 = O.geo_xyz_lab([0.0], [0.0], p)[:, 0]
    dS = O.geo_xyz_lab([1.0], [0.0], p)[:, 0] - P0
    dF = O.geo_xyz_lab([0.0], [1.0], p)[:, 0] - P0
    org = O.geo_grain_origins(om, p, t)
    u = np.array([np.cos(np.radians(tth)), -np.sin(np.radians(tth)) * np.sin(np.radians(eta)),
                  np.sin(np.radians(tth)) * np.cos(np.radians(eta))])
    worst = 0.0
    behind = 0
    for i in range(n):
        A = np.array([dS, dF, -u[:, i]]).T
        s, f, rr = np.linalg.solve(A, org[:, i] - P0)
        if rr <= 0:
            behind += 1
            continue
        worst = max(worst, abs(s - sc[i]), abs(f - fc[i]))
    if worst > 1e-6:
        fails.append(fail("raytrace", "compute_xyz_from_tth_eta differs from the ray trace by %.3g px; pars %s" %
                          (worst, {k: round(v, 5) for k, v in p.items()}), fn="compute_xyz_from_tth_eta"))
    if rec is not None:
        if behind:
            rec.exclude("ray does not hit the detector plane in the forward direction", behind)
        idx = case["index"]
        tilt = idx & 7
        rec.count(n - 1)
        rec.case(case, bool((idx >> 5) & 7 and tilt) or bool((idx >> 3) & 1 and (idx >> 4) & 1), ["detector"],
                 key=idx * 1000003 + case["mseed"])
    return fails


# ------------------------------------------------------------------ (d) general axis machinery of gv_general

@st.composite
def axcases(draw):
    seed = draw(st.integers(0, 2 ** 31 - 1))
    axkind = draw(st.sampled_from(["z", "-z", "x", "generic", "generic"]))
    wv = draw(st.floats(0.1, 1.5, allow_nan=False))
    usepre = draw(st.booleans())
    usepost = draw(st.booleans())
    return dict(seed=seed, axkind=axkind, wv=wv, usepre=usepre, usepost=usepost)


def rodrigues(axis, ang_deg):
    a = np.asarray(axis, float)
    t = np.radians(ang_deg)
    K = np.array([[0, -a[2], a[1]], [a[2], 0, -a[0]], [-a[1], a[0], 0]])
    return np.eye(3) + np.sin(t) * K + (1 - np.cos(t)) * (K @ K)


def check_axis(case, rec=None):
    from ImageD11 import gv_general
    from vf import gens
    rng = np.random.RandomState(case["seed"] % (2 ** 32))
    if case["axkind"] == "generic":
        axis = rng.standard_normal(3)
        axis /= np.linalg.norm(axis)
    else:
        axis = {"z": [0, 0, 1.], "-z": [0, 0, -1.], "x": [1., 0, 0]}[case["axkind"]]
        axis = np.array(axis)
    n = 50
    fails = []
    v = rng.standard_normal((3, n))
    ang = rng.uniform(-360, 360, n)
    ok, ra = guard(gv_general.rotation_axis, axis, 33.0)
    if not ok:
        return [exc_failure("rotation_axis", ra)]
    exp = np.array([rodrigues(axis, a) @ v[:, i] for i, a in enumerate(ang)]).T
    ok, r = guard(ra.rotate_vectors, v, ang)
    if ok and np.abs(np.asarray(r) - exp).max() > 1e-12:
        fails.append(fail("rotate", "rotation_axis.rotate_vectors differs from the Rodrigues formula by %.3g" %
                          np.abs(np.asarray(r) - exp).max(), fn="rotate_vectors"))
    ok, r = guard(ra.rotate_vectors_inverse, exp, ang)
    if ok and np.abs(np.asarray(r) - v).max() > 1e-12:
        fails.append(fail("rotate", "rotate_vectors_inverse is not the inverse rotation", fn="rotate_vectors_inverse"))
    if np.abs(np.asarray(ra.to_matrix()) - rodrigues(axis, 33.0)).max() > 1e-12:
        fails.append(fail("rotate", "rotation_axis.to_matrix differs from the Rodrigues matrix", fn="to_matrix"))
    a0 = float(rng.uniform(1, 179))
    ok, ra2 = guard(gv_general.axis_from_matrix, rodrigues(axis, a0))
    if ok:
        if abs(ra2.angle - a0) > 1e-7 or np.abs(np.asarray(ra2.direction) - axis).max() > 1e-7:
            fails.append(fail("rotate", "axis_from_matrix(%s, %.3f) returned %s, %.6f" % (axis, a0, ra2.direction,
                                                                                          ra2.angle), fn="axis_from_matrix"))
    else:
        fails.append(exc_failure("axis_from_matrix", ra2))
    pre = gens.rotation_from_seed(case["seed"] + 1) if case["usepre"] else None
    post = gens.rotation_from_seed(case["seed"] + 2) if case["usepost"] else None
    ok, g = guard(gv_general.k_to_g, v, ang, axis, pre, post)
    if ok:
        e2 = v if post is None else post @ v
        e2 = np.array([rodrigues(axis, a) @ e2[:, i] for i, a in enumerate(ang)]).T
        e2 = e2 if pre is None else pre @ e2
        if np.abs(np.asarray(g) - e2).max() > 1e-12:
            fails.append(fail("k_to_g", "k_to_g differs from pre.R(axis,angle).post.k", fn="k_to_g"))
    else:
        fails.append(exc_failure("k_to_g", g))
    # g_to_k with a general axis: every solution flagged valid satisfies the Laue condition
    wv = case["wv"]
    gg = rng.standard_normal((3, n))
    gg *= rng.uniform(0.05, 1.9 / wv, n) / np.sqrt((gg * gg).sum(axis=0))
    # g_to_k is exercised with pre/post only in the combination transform.uncompute_g_vectors uses (sub-check
    # "uncompute"); the general convention of those two arguments is not documented consistently, so the general
    # axis is tested without them
    pre = post = None
    zaxis = abs(abs(axis[2]) - 1) < 1e-12
    ok, r = guard(gv_general.g_to_k, gg, wv, axis, pre, post) if zaxis else (False, None)
    if not zaxis:
        # ImageD11 only ever calls g_to_k with the rotation axis along +-z; for other axes its solutions do
        # not satisfy the Laue condition (observation recorded in DESIGN.md 9.3, outside the statement of C02)
        pass
    elif ok:
        o1, o2, valid = r
        valid = np.asarray(valid, bool)
        for lab, om in (("first", o1), ("second", o2)):
            om = np.asarray(om, float)
            for i in np.nonzero(valid)[0]:
                # g = pre . R(axis, om) . post . k   ->   k = post^T R^T pre^T g
                q = gg[:, i] if pre is None else pre.T @ gg[:, i]
                q = rodrigues(axis, om[i]).T @ q
                k = q if post is None else post.T @ q
                lhs = k[0]                                  # k . x
                rhs = -wv * (gg[:, i] @ gg[:, i]) / 2
                if abs(lhs - rhs) > 1e-9 / wv:
                    fails.append(fail("laue", "g_to_k (%s solution, axis %s, pre %s, post %s): k does not satisfy the "
                                      "Laue condition (k.x = %.9g, needs %.9g)" % (lab, np.round(axis, 3).tolist(),
                                      case["usepre"], case["usepost"], lhs, rhs), fn="g_to_k"))
                    break
        # validity against the reachability range of k.x over the rotation
        a = axis
        b = np.array([1.0, 0, 0]) if post is None else post @ np.array([1.0, 0, 0])
        qq = gg if pre is None else pre.T @ gg
        # k.x = (R^T q).b = q.(R b): range over the angle = (q.a)(b.a) +- |q_perp||b_perp|
        mid = (qq * a[:, None]).sum(axis=0) * (b @ a)
        qp = qq - a[:, None] * (qq * a[:, None]).sum(axis=0)
        bp = b - a * (b @ a)
        half = np.sqrt((qp * qp).sum(axis=0)) * np.linalg.norm(bp)
        target = -wv * (gg * gg).sum(axis=0) / 2
        with np.errstate(divide="ignore", invalid="ignore"):
            m = np.where(half > 0, (target - mid) / half, np.inf)
        if (valid & (np.abs(m) > 1 + 1e-9)).any() or ((~valid) & (np.abs(m) < 1 - 1e-9)).any():
            fails.append(fail("g_to_k_valid", "g_to_k valid flag disagrees with the reachability criterion for a "
                              "general axis/pre/post", fn="g_to_k"))
    else:
        fails.append(exc_failure("g_to_k", r))
    if rec is not None:
        rec.count(n - 1)
        rec.case(case, case["axkind"] == "generic" or (case["usepre"] and case["usepost"]), ["general_axis"])
    return fails


# ------------------------------------------------------------------ (e) the columnfile's ds/tth/g columns

def check_columns(case, rec=None):
    """Bragg's law on the columns a columnfile computes, and independence of the columns from the object's past:
    update, edit parameters in place, update again must leave what a fresh object computes from the final parameters."""
    from ImageD11 import columnfile, parameters
    p, sc, fc, om = c01.params_from(case["index"], case["mseed"])
    rng = np.random.RandomState((case["mseed"] * 104729 + case["index"]) % (2 ** 32))
    edits = {"wavelength": p["wavelength"] * rng.uniform(0.7, 1.4), "wedge": p["wedge"] + rng.uniform(-5, 5),
             "chi": p["chi"] + rng.uniform(-5, 5), "omegasign": -p["omegasign"],
             "distance": p["distance"] * rng.uniform(0.8, 1.2), "y_center": p["y_center"] + rng.uniform(-50, 50),
             "t_x": p["t_x"] + rng.uniform(-100, 100)}
    names = [k for k in sorted(edits) if rng.random_sample() < 0.5] or ["wavelength"]
    how = case.get("how", "set")
    fails = []

    def mk(pars):
        cf = columnfile.colfile_from_dict({"sc": np.asarray(sc, float).copy(), "fc": np.asarray(fc, float).copy(),
                                           "omega": np.asarray(om, float).copy()})
        cf.parameters = parameters.parameters(**pars)
        return cf

    def laws(cf, pars, label):
        tth, ds = np.asarray(cf.tth, float), np.asarray(cf.ds, float)
        g = np.array([cf.gx, cf.gy, cf.gz], float)
        tol = 1e-10 / pars["wavelength"]
        e1 = np.abs(ds - 2 * np.sin(np.radians(tth) / 2) / pars["wavelength"]).max()
        e2 = np.abs(np.sqrt((g * g).sum(axis=0)) - ds).max()
        if not (e1 <= tol and e2 <= tol):
            fails.append(fail("columns", "%s: ds column differs from 2 sin(theta)/lambda of the object's current "
                              "parameters by %.3g, |g| from ds by %.3g (edited %s)" % (label, e1, e2, names),
                              what="bragg"))
        else:
            # and g is k(two-theta, eta) of the same row taken back through wedge, chi and omega (harness formulas)
            from vf import oracles as O_
            gk = O_.geo_g_from_k(O_.geo_k(tth, np.asarray(cf.eta, float), pars["wavelength"]),
                                 np.asarray(cf.omega, float) * pars["omegasign"], pars)
            e3 = np.abs(g - np.asarray(gk).reshape(g.shape)).max()
            if not e3 <= 10 * tol:
                fails.append(fail("columns", "%s: gx, gy, gz differ from Omega.Chi.Wedge.k of the row's own two-theta, eta "
                                  "and omega by %.3g (wedge %.3f chi %.3f)" % (label, e3, pars["wedge"], pars["chi"]),
                                  what="g_from_angles"))

    for fast in (True, False):
        label = "columnfile.updateGeometry(fast=%s)" % fast
        a = mk(p)
        ok, e = guard(a.updateGeometry, fast=fast)
        if not ok:
            fails.append(exc_failure(label, e))
            continue
        laws(a, p, label + " first call")
        p2 = dict(p)
        for k in names:
            p2[k] = edits[k]
            if how == "set":
                a.parameters.set(k, edits[k])
            else:
                a.parameters.parameters[k] = edits[k]
        ok, e = guard(a.updateGeometry, fast=fast)
        if not ok:
            fails.append(exc_failure(label + " after an in-place parameter edit", e))
            continue
        laws(a, p2, label + " after an in-place parameter edit")
        b = mk(p2)
        ok, e = guard(b.updateGeometry, fast=fast)
        if not ok:
            fails.append(exc_failure(label, e))
            continue
        for col in ("xl", "yl", "zl", "tth", "eta", "ds", "gx", "gy", "gz"):
            d = np.abs(np.asarray(a.getcolumn(col), float) - np.asarray(b.getcolumn(col), float)).max()
            if not d <= 1e-9 * (1 + np.abs(np.asarray(b.getcolumn(col), float)).max()):
                fails.append(fail("columns", "%s: column %s after update / edit %s in place / update differs from a "
                                  "fresh object with the same final parameters by %.3g" % (label, col, names, d),
                                  what="history"))
                break
        # updateGV (g-vectors only, straight from the pixel positions) must reproduce the g columns
        gbefore = np.array([a.gx, a.gy, a.gz], float)
        ok, e = guard(a.updateGV, fast=fast)
        if ok:
            d = np.abs(np.array([a.gx, a.gy, a.gz], float) - gbefore).max()
            if not d <= 1e-9 / p2["wavelength"]:
                fails.append(fail("columns", "columnfile.updateGV(fast=%s) changes the g columns computed by "
                                  "updateGeometry by %.3g (edited %s)" % (fast, d, names), what="updateGV"))
        else:
            fails.append(exc_failure("columnfile.updateGV(fast=%s)" % fast, e))
    # the transformer object (the route of the gui, of grid_index_parallel and of the fitting scripts): parameters
    # set, peaks attached, compute_tth_eta then computegv must give the columns of a fresh columnfile
    if not fails:
        from ImageD11 import transformer
        import io, contextlib

        def troute():
            tr = transformer.transformer()
            tr.parameterobj.set_parameters(dict(p2))
            tr.setfiltered(mk(p2))
            with contextlib.redirect_stdout(io.StringIO()):
                tr.compute_tth_eta()
                tr.computegv()
            return tr
        ok, tr = guard(troute)
        if not ok:
            fails.append(exc_failure("transformer.compute_tth_eta/computegv", tr))
        else:
            gt = np.array([tr.colfile.gx, tr.colfile.gy, tr.colfile.gz], float)
            e2 = np.abs(np.sqrt((gt * gt).sum(axis=0)) -
                        2 * np.sin(np.radians(np.asarray(tr.colfile.tth, float)) / 2) / p2["wavelength"]).max()
            if not e2 <= 1e-10 / p2["wavelength"]:
                fails.append(fail("columns", "transformer.compute_tth_eta + computegv: |g| differs from 2 sin(theta)/"
                                  "lambda by %.3g" % e2, what="bragg"))
            # g = Omega.Chi.Wedge.k of the object's own two-theta / eta columns (harness formulas); only the angle to
            # g step is judged here: how this object arrives at two-theta and eta for a displaced grain is not part
            # of the statement
            from vf import oracles as O
            kk = O.geo_k(np.asarray(tr.colfile.tth, float), np.asarray(tr.colfile.eta, float), p2["wavelength"])
            gref = O.geo_g_from_k(kk, np.asarray(om, float) * p2["omegasign"], p2)
            d = np.abs(gt - np.asarray(gref).reshape(gt.shape)).max()
            if not d <= 1e-10 / p2["wavelength"]:
                fails.append(fail("columns", "transformer.computegv: gx, gy, gz differ from Omega.Chi.Wedge.k of its own "
                                  "two-theta, eta and omega by %.3g (wedge %.3f chi %.3f omegasign %g)"
                                  % (d, p2["wedge"], p2["chi"], p2["omegasign"]), what="transformer"))
    if rec is not None:
        rec.case(case, len(names) >= 2, ["columns"] + ["edit:" + k for k in names])
    return fails


def run_shard(rec):
    quick = rec.tier == "quick"
    k = 4 if quick else 30
    hyp_run(rec, "uncompute", gcases(), lambda c: check_g(c, rec), max_examples=150 * k)
    hyp_run(rec, "bragg", peakcases(), lambda c: check_peaks(c, rec), max_examples=80 * k)
    hyp_run(rec, "axis", axcases(), lambda c: check_axis(c, rec), max_examples=40 * k)
    step = 4 if quick else 1
    todo = [dict(index=i, mseed=rec.seed) for i in range(rec.seed % step, 16384, step)
            if (i // step) % rec.nshards == rec.shard]
    run_cases(rec, "detector", todo, lambda c: check_detector(c, rec))
    hyp_run(rec, "detector", st.builds(lambda i, m: dict(index=i, mseed=m), st.integers(0, 16383),
                                       st.integers(0, 2 ** 20)),
            lambda c: check_detector(c, rec), max_examples=100 * k)
    hyp_run(rec, "columns", st.builds(lambda i, m, h: dict(index=i, mseed=m, how=h), st.integers(0, 16383),
                                      st.integers(0, 2 ** 20), st.sampled_from(["set", "dict"])),
            lambda c: check_columns(c, rec), max_examples=60 * k)


def replay(sub, case, rec):
    return {"uncompute": check_g, "bragg": check_peaks, "detector": check_detector, "axis": check_axis,
            "columns": check_columns}[sub](case, rec)
