"""C03 - reflection lists are complete, sound and correctly grouped into rings."""
import math
import numpy as np
from hypothesis import strategies as st
from vf import gens
from vf.runner import hyp_run, run_cases, guard, fail, exc_failure

RULE = ("(sub-check cells_bigbox: the same with search boxes of up to 150 000 / 400 000 points) " +
        "cells from 7 families (triclinic angles constructed inside the positive-volume region, a,b,c in "
        "[2,30] A, angles in [55,125] deg) x centring P/A/B/C/I/F/R x d* limit (bounded so the brute-force "
        "box holds <= 2e4 (quick) / 1.2e5 (thorough) points) x ring tolerance x a second d* limit on the same "
        "object (cache histories of gethkls and of makerings big/small/big); limits placed exactly on a reflection's d*; ring tolerance changed between two makerings calls with the same limit; indexer.assigntorings on peaks placed on / near the reflections of pseudo-symmetric cells whose rings lie 0.4-6 tolerances apart; oracle = brute-force box enumeration with the harness's own reciprocal metric "
        "and International-Tables centring rules; non-trivial = at least one non-right angle or centring != P, "
        "and >= 10 reflections; distinct = hash of (cell, centring, limits)")
ASSUMPTIONS = ["box bound |h_i| <= dsmax*|a_i| + 1 is complete (Cauchy-Schwarz: h_i = g.a_i)",
               "reflections whose d* lies within 1e-9 (relative) of the limit may be listed or not (counted)",
               "|h|,|k|,|l| < 200 as documented by gethkls"]

CENTRINGS = "PABCIFR"
BAND = 1e-9


def shard_layout(tier):
    return [("opt", None)] * (8 if tier == "quick" else 16)


def allowed(sym, h, k, l):
    if sym == "P":
        return np.ones(len(h), bool)
    if sym == "A":
        return (k + l) % 2 == 0
    if sym == "B":
        return (h + l) % 2 == 0
    if sym == "C":
        return (h + k) % 2 == 0
    if sym == "I":
        return (h + k + l) % 2 == 0
    if sym == "F":
        return ((h + k) % 2 == 0) & ((h + l) % 2 == 0) & ((k + l) % 2 == 0)
    if sym == "R":
        return (-h + k + l) % 3 == 0
    raise ValueError(sym)


def boxsize(cell, dsmax):
    return int(np.prod([2 * (int(math.floor(dsmax * x)) + 1) + 1 for x in cell[:3]]))


def brute(cell, sym, dsmax):
    """returns dict hkl -> d*, for all allowed hkl with d* < dsmax*(1+BAND), and the
    subset that is inside the uncertain band"""
    Gs = np.linalg.inv(gens.gram(cell))
    hm = [min(199, int(math.floor(dsmax * (1 + BAND) * x)) + 1) for x in cell[:3]]
    H = np.mgrid[-hm[0]:hm[0] + 1, -hm[1]:hm[1] + 1, -hm[2]:hm[2] + 1].reshape(3, -1).T
    d2 = np.einsum("ij,jk,ik->i", H, Gs, H)
    ds = np.sqrt(np.maximum(d2, 0))
    ok = allowed(sym, H[:, 0], H[:, 1], H[:, 2]) & (np.abs(H).sum(axis=1) > 0)
    sure = ok & (ds < dsmax * (1 - BAND))
    band = ok & (ds >= dsmax * (1 - BAND)) & (ds <= dsmax * (1 + BAND))
    S = {tuple(int(x) for x in h): float(d) for h, d in zip(H[sure], ds[sure])}
    Bd = {tuple(int(x) for x in h): float(d) for h, d in zip(H[band], ds[band])}
    return S, Bd


@st.composite
def cases(draw, maxbox):
    fam, cell = draw(gens.cells(families=gens.FAMILIES + ('triclinic', 'triclinic', 'monoclinic')))
    sym = draw(st.sampled_from(CENTRINGS))
    # largest admissible dsmax for the box bound, by bisection
    lo, hi = 0.0, 10.0
    for _ in range(40):
        mid = 0.5 * (lo + hi)
        if boxsize(cell, mid) <= maxbox:
            lo = mid
        else:
            hi = mid
    Gs = np.linalg.inv(gens.gram(cell))
    # d* of the shortest allowed reflection among small indices, so that lists are not empty
    H = np.mgrid[-3:4, -3:4, -3:4].reshape(3, -1).T
    H = H[np.abs(H).sum(axis=1) > 0]
    H = H[allowed(sym, H[:, 0], H[:, 1], H[:, 2])]
    dmin = float(np.sqrt(np.einsum("ij,jk,ik->i", H, Gs, H)).min())
    top = max(lo, dmin * 1.05)
    f1 = draw(st.floats(0.0, 1.0, allow_nan=False, width=64))
    f2 = draw(st.floats(0.0, 1.0, allow_nan=False, width=64))
    ds1 = dmin * 1.02 + f1 * (top - dmin * 1.02)
    ds2 = dmin * 1.02 + f2 * (top - dmin * 1.02)
    tol = draw(st.sampled_from([1e-4, 1e-3, 2e-3, 0.01, 0.05]))
    exact = draw(st.booleans())   # put the limit exactly on a reflection's d* (boundary class)
    return dict(family=fam, cell=[float(x) for x in cell], sym=sym, ds1=float(ds1), ds2=float(ds2),
                tol=tol, exact=exact)


def check_list(peaks, cell, sym, dsmax, name):
    fails = []
    S, Bd = brute(cell, sym, dsmax)
    got = [tuple(int(x) for x in p[1]) for p in peaks]
    gs = set(got)
    if len(got) != len(gs):
        fails.append(fail("duplicate", "%s: %d duplicated hkl" % (name, len(got) - len(gs)), call=name))
    if (0, 0, 0) in gs:
        fails.append(fail("zero", "%s lists (0,0,0)" % name, call=name))
    missing = set(S) - gs
    extra = gs - set(S) - set(Bd)
    if missing:
        fails.append(fail("missing", "%s: %d allowed reflections with d*<limit absent, e.g. %s (d*=%.6f, "
                          "limit %.6f)" % (name, len(missing), sorted(missing)[:3],
                                           S[sorted(missing)[0]], dsmax), call=name))
    if extra:
        fails.append(fail("extra", "%s: %d listed reflections are forbidden or beyond the limit, e.g. %s"
                          % (name, len(extra), sorted(extra)[:3]), call=name))
    # listed d* equals |B.hkl|
    B = gens.busing_levy_B(cell)
    if len(peaks):
        H = np.array(got, float)
        dref = np.sqrt(((B @ H.T) ** 2).sum(axis=0))
        dl = np.array([p[0] for p in peaks], float)
        bad = np.abs(dl - dref) > 1e-10 * np.maximum(1, dref)
        if bad.any():
            k = int(np.argmax(bad))
            fails.append(fail("dstar", "%s: listed d* %r for %s but |B.hkl| = %r" %
                              (name, dl[k], got[k], dref[k]), call=name))
        if (np.diff(dl) < 0).any():
            fails.append(fail("unsorted", "%s: list not in ascending d*" % name, call=name))
        if not dl.max() < dsmax:
            # decidable without any tolerance: the listed value itself must be below the limit
            fails.append(fail("limit", "%s: lists %s with d* %r which is not below the limit %r" %
                              (name, got[int(np.argmax(dl))], dl.max(), dsmax), call=name))
    return fails, len(S), len(Bd)


def check_rings(u, tol, name):
    fails = []
    peaks = u.peaks
    ringds = list(u.ringds)
    if sorted(u.ringhkls.keys()) != sorted(ringds) or len(set(ringds)) != len(ringds):
        fails.append(fail("ringkeys", "%s: ringhkls keys differ from ringds" % name))
        return fails
    if any(b <= a for a, b in zip(ringds[:-1], ringds[1:])):
        fails.append(fail("ringorder", "%s: ringds not strictly ascending" % name))
    # concatenation of rings in order must be exactly the peak list in order (partition
    # into contiguous ascending runs, each reflection in exactly one ring)
    flat = []
    for d in ringds:
        flat += [tuple(int(x) for x in h) for h in u.ringhkls[d]]
    plist = [tuple(int(x) for x in p[1]) for p in peaks]
    if flat != plist:
        if sorted(flat) != sorted(plist):
            fails.append(fail("ringpartition", "%s: rings do not partition the peak list (%d in rings, %d "
                              "peaks)" % (name, len(flat), len(plist))))
        else:
            fails.append(fail("ringcontiguous", "%s: rings are not contiguous runs of the sorted list" % name))
        return fails
    dsof = {tuple(int(x) for x in p[1]): p[0] for p in peaks}
    for k, d in enumerate(ringds):
        mem = [dsof[tuple(int(x) for x in h)] for h in u.ringhkls[d]]
        if not any(abs(m - d) == 0 for m in mem):
            fails.append(fail("ringds", "%s: ringds[%d] is not the d* of a member" % (name, k)))
        gaps = np.diff(mem)
        if len(gaps) and gaps.max() >= tol * (1 + 1e-9):
            fails.append(fail("ringwide", "%s: neighbouring members of ring %d differ by %g >= tol %g" %
                              (name, k, gaps.max(), tol)))
        if k + 1 < len(ringds) and ringds[k + 1] - d < tol * (1 - 1e-9):
            fails.append(fail("ringsplit", "%s: rings %d and %d start only %g apart (< tol %g)" %
                              (name, k, k + 1, ringds[k + 1] - d, tol)))
    return fails


def check(case, rec=None):
    from ImageD11 import unitcell
    cell, sym = case["cell"], case["sym"]
    ok, u = guard(unitcell.unitcell, cell, sym)
    if not ok:
        return [exc_failure("unitcell()", u)]
    fails = []
    ds1, ds2 = case["ds1"], case["ds2"]
    if case["exact"]:
        # put the first limit exactly at the d* of a reflection as the library computes it:
        # strict '<' must exclude it.  Done through the public ds() method.
        S, _ = brute(cell, sym, ds1)
        if S:
            hk = max(S, key=lambda h: S[h])
            ds1 = float(u.ds(list(hk)))
    nrefl = 0
    nband = 0
    # another object in the same process: same cell, same limit, another centring (two phases / settings of one
    # lattice) - what it computed must not leak into this one, nor the other way round (checked after the history)
    other = CENTRINGS[(CENTRINGS.index(sym) + 1 + int(cell[0] * 1000) % (len(CENTRINGS) - 1)) % len(CENTRINGS)]
    ok, uo = guard(unitcell.unitcell, cell, other)
    if ok:
        ok, pk = guard(uo.gethkls, ds1)
        if ok:
            f, n, nb = check_list(pk, cell, other, ds1, "gethkls of a %s cell made before the %s cell" % (other, sym))
            fails += f
        else:
            fails.append(exc_failure("gethkls", pk))
    # history: limit 1, limit 2, limit 1 again on the same object, then rings
    for step, d in enumerate((ds1, ds2, ds1)):
        ok, peaks = guard(u.gethkls, d)
        if not ok:
            return fails + [exc_failure("gethkls", peaks)]
        f, n, nb = check_list(peaks, cell, sym, d, "gethkls(step %d)" % step)
        fails += f
        nrefl = max(nrefl, n)
        nband += nb
    if isinstance(uo, unitcell.unitcell) and not fails:
        ok, pk = guard(unitcell.unitcell(cell, other).gethkls, ds1)
        if ok:
            f, n, nb = check_list(pk, cell, other, ds1, "gethkls of a %s cell made after the %s cell" % (other, sym))
            fails += f
    # the list as the transformer object keeps it for fitting and for the header of g-vector files: the reflections
    # up to the two-theta limit it is given (here the angle of ds1 at 0.3 A), no further
    if not fails and 0.15 * ds1 < 0.999:
        from ImageD11 import transformer, columnfile
        import io, contextlib
        wl = 0.3
        tthlim = float(np.degrees(2 * np.arcsin(wl * ds1 / 2)))

        def troute():
            tr = transformer.transformer()
            tr.parameterobj.set_parameters({"cell__a": cell[0], "cell__b": cell[1], "cell__c": cell[2],
                                            "cell_alpha": cell[3], "cell_beta": cell[4], "cell_gamma": cell[5],
                                            "cell_lattice_[P,A,B,C,I,F,R]": sym, "wavelength": wl})
            tr.setfiltered(columnfile.colfile_from_dict({"sc": np.array([1.0, 2.0]), "fc": np.array([1.0, 2.0]),
                                                         "omega": np.zeros(2), "tth": np.array([1.0, 2.0]),
                                                         "eta": np.zeros(2)}))
            with contextlib.redirect_stdout(io.StringIO()):
                tr.addcellpeaks(tthlim)
            return tr
        ok, tr = guard(troute)
        if not ok:
            fails.append(exc_failure("transformer.addcellpeaks", tr))
        else:
            dsl = float(tr.dslimit)
            if abs(dsl - ds1) > 1e-9 * ds1:
                fails.append(fail("limit", "transformer.addcellpeaks: dslimit %r for a two-theta limit that corresponds "
                                  "to %r" % (dsl, ds1), call="addcellpeaks"))
            else:
                f, n, nb = check_list(tr.theorypeaks, cell, sym, dsl, "transformer.addcellpeaks (theorypeaks)")
                fails += f
    tol = case["tol"]
    ok, e = guard(u.makerings, ds2, tol)
    if ok and isinstance(uo, unitcell.unitcell):
        # a second phase makes its rings afterwards: this object's rings are still its own
        mine = (list(u.ringds), {k: list(map(tuple, v)) for k, v in u.ringhkls.items()})
        guard(uo.makerings, 0.5 * (ds1 + ds2), tol * 2)
        if (list(u.ringds), {k: list(map(tuple, v)) for k, v in u.ringhkls.items()}) != mine:
            fails.append(fail("history", "the rings of one unitcell object changed when another object (%s centring) "
                              "made its rings" % other, call="makerings/instances"))
    if not ok:
        fails.append(exc_failure("makerings", e))
    else:
        f, n, nb = check_list(u.peaks, cell, sym, ds2 + tol, "makerings.peaks")
        fails += f
        nband += nb
        fails += check_rings(u, tol, "makerings")
        # fresh object must give identical rings (cache purity)
        u2 = unitcell.unitcell(cell, sym)
        u2.makerings(ds2, tol)
        if list(u2.ringds) != list(u.ringds) or any(
                list(map(tuple, u2.ringhkls[d])) != list(map(tuple, u.ringhkls[d])) for d in u2.ringds):
            fails.append(fail("history", "rings after a history of gethkls calls differ from a fresh object"))
    # ---- ring histories on one object: big, small, big again, then a list in between (cache must not shrink)
    ok, u3 = guard(unitcell.unitcell, cell, sym)
    if ok:
        big, small = max(ds1, ds2), min(ds1, ds2)
        mid = 0.5 * (big + small)
        tol2 = tol * 5.0 if tol <= 2e-3 else tol * 0.2
        # same limit again with another ring tolerance, and back (an indexer whose ds_tol is edited between calls)
        # ... and a last call that leaves the tolerance to its documented default of 0.001 (as transformer,
        # rings_mask and the pole figure code call it) after calls with other tolerances
        for step, (lim, tl) in enumerate(((big, tol), (small, tol), (big, tol), (big, tol2), (big, tol),
                                          (big, max(tol, tol2, 0.008)), (big, None))):
            if tl is None:
                ok, e = guard(u3.makerings, lim)
                tl = 0.001
            else:
                ok, e = guard(u3.makerings, lim, tl)
            if not ok:
                fails.append(exc_failure("makerings(history step %d)" % step, e))
                break
            f, n, nb = check_list(u3.peaks, cell, sym, lim + tl, "makerings history step %d" % step)
            fails += f
            fails += check_rings(u3, tl, "makerings history step %d" % step)
            uf = unitcell.unitcell(cell, sym)
            uf.makerings(lim, tl)
            if list(uf.ringds) != list(u3.ringds):
                fails.append(fail("history", "rings after makerings(%g,%g), makerings(%g,%g), (%g,%g), (%g,%g), ... "
                                  "differ from a fresh object at step %d (%d vs %d rings)" %
                                  (big, tol, small, tol, big, tol, big, tol2, step, len(u3.ringds), len(uf.ringds)),
                                  call="makerings"))
            if fails:
                break
        if not fails:
            ok, pk = guard(u3.gethkls, mid)
            if ok:
                f, n, nb = check_list(pk, cell, sym, mid, "gethkls after ring history")
                fails += f
            else:
                fails.append(exc_failure("gethkls after ring history", pk))
    if rec is not None:
        oblique = any(abs(x - 90) > 1e-9 for x in cell[3:])
        nt = (oblique or sym != "P") and nrefl >= 10
        rec.case(case, nt, ["family:" + case["family"], "sym:" + sym] +
                 (["exact_limit"] if case["exact"] else []) + (["oblique"] if oblique else []))
        rec.note("reflections_compared", nrefl)
        if nband:
            rec.exclude("reflection within 1e-9 of the d* limit (either outcome accepted)", nband)
    return fails


REGRESSION = [   # pinned cases of the defects fixed in the repository (D1, D2)
    dict(family="orthorhombic", cell=[4., 5., 6., 90., 90., 90.], sym="A", ds1=1.0, ds2=0.7, tol=1e-3,
         exact=False),
    dict(family="triclinic", cell=[7.096, 4.158, 2.328, 60.99, 108.80, 114.77], sym="P", ds1=1.2, ds2=0.9,
         tol=1e-3, exact=False),
]


# ------------------------------------------------------------------ peaks assigned to the rings (indexer.assigntorings)

@st.composite
def ringcases(draw):
    base = draw(st.sampled_from(["cubic", "tetragonal", "hexagonal", "orthorhombic", "generic"]))
    a = draw(st.floats(3.0, 8.0, allow_nan=False, width=64))
    r = draw(st.sampled_from([0.0, 3e-4, 1e-3, 3e-3, 5e-3]))        # pseudo-symmetry: relative distortion of the axes
    f = draw(st.sampled_from([0.4, 0.7, 1.2, 1.7, 2.5, 6.0]))        # ring tolerance in units of the d* splitting
    sym = draw(st.sampled_from(["P", "P", "I", "F"]))
    seed = draw(st.integers(0, 2 ** 31 - 1))
    return dict(base=base, a=a, r=r, f=f, sym=sym, seed=seed)


def check_ringassign(case, rec=None):
    """Every simulated peak sits exactly on, or a fraction of the tolerance away from, a reflection of the list.  A
    peak must go to a ring whose d* is within ds_tol, must not stay unassigned when such a ring exists, and a peak on a
    reflection whose own ring is strictly the nearest one must go to that ring; ring totals are the histogram."""
    from ImageD11 import unitcell, indexing
    rng = np.random.RandomState(case["seed"] % (2 ** 32))
    a, r = case["a"], case["r"]
    cell = {"cubic": [a, a * (1 - r), a * (1 - 2 * r), 90., 90., 90.],
            "tetragonal": [a, a * (1 + r), a * 1.3, 90., 90., 90.],
            "hexagonal": [a, a * (1 - r), a * 1.6, 90., 90., 120. + 50 * r],
            "orthorhombic": [a, a * 1.1, a * 1.25 * (1 + r), 90., 90. - 30 * r, 90.],
            "generic": [a, a * 1.13, a * 0.87, 85., 97., 104.]}[case["base"]]
    dstar = 1.0 / a
    ds_tol = max(case["f"] * max(r, 2e-4) * dstar, 1e-5)
    limit = 3.2 * dstar
    ok, uc = guard(unitcell.unitcell, cell, case["sym"])
    if not ok:
        return [exc_failure("unitcell()", uc)]
    uc.makerings(limit, ds_tol)
    refl = [(d, tuple(h)) for d in uc.ringds for h in uc.ringhkls[d]]
    if not refl:
        return []
    B = gens.busing_levy_B(cell)
    dsr = np.array([np.linalg.norm(B @ np.array(h, float)) for _, h in refl])
    own = np.array([uc.ringds.index(d) for d, _ in refl])
    off = rng.choice([0.0, 0.0, 0.3, -0.3, 0.9, -0.9, 1.3], len(refl)) * ds_tol
    dsp = np.concatenate([dsr + off, rng.uniform(0.3 * dstar, limit, 20)])
    own = np.concatenate([np.where(off == 0, own, -2), np.full(20, -2)])
    keep = dsp < limit
    dsp, own = dsp[keep], own[keep]
    if len(dsp) == 0:
        return []
    dirs = rng.standard_normal((len(dsp), 3))
    gv = dirs / np.linalg.norm(dirs, axis=1)[:, None] * dsp[:, None]
    uc2 = unitcell.unitcell(cell, case["sym"])
    ok, ind = guard(indexing.indexer, unitcell=uc2, gv=gv, ds_tol=ds_tol, wavelength=0.3)
    if not ok:
        return [exc_failure("indexer()", ind)]
    indexing.loglevel = 10
    ok, e = guard(ind.assigntorings)
    if not ok:
        return [exc_failure("assigntorings", e)]
    fails = []
    reps = np.array(ind.unitcell.ringds, float)
    ra = np.asarray(ind.ra)
    dsv = np.sqrt((gv * gv).sum(axis=1))
    D = np.abs(dsv[:, None] - reps[None, :])
    where = "cell %s %s ds_tol %.3g" % (np.round(cell, 5).tolist(), case["sym"], ds_tol)
    asg = ra >= 0
    if asg.any() and (D[asg, ra[asg]] >= ds_tol * (1 + 1e-9)).any():
        fails.append(fail("ringassign", "assigntorings: a peak is assigned to a ring further than ds_tol away; " + where,
                          what="sound"))
    if ((~asg) & (D.min(axis=1) < ds_tol * (1 - 1e-9))).any():
        fails.append(fail("ringassign", "assigntorings: a peak within ds_tol of a ring is left unassigned; " + where,
                          what="complete"))
    srt = np.sort(D, axis=1)
    strict = (srt[:, 0] < ds_tol * (1 - 1e-9)) & ((srt.shape[1] == 1) | (srt[:, min(1, srt.shape[1] - 1)] - srt[:, 0] > 1e-9))
    mine = (own >= 0) & strict & (np.argmin(D, axis=1) == np.where(own >= 0, own, 0))
    if len(reps) == len(uc.ringds) and (ra[mine] != own[mine]).any():
        k = int(np.nonzero(mine & (ra != own))[0][0])
        fails.append(fail("ringassign", "assigntorings: a peak exactly on a reflection (d* %.6f) of ring %d, whose ring "
                          "is the nearest one, is counted in ring %d; %s" % (dsv[k], own[k], ra[k], where), what="own"))
    hist = np.bincount(ra[asg], minlength=len(reps))
    if not np.array_equal(np.asarray(ind.na), hist):
        fails.append(fail("ringassign", "assigntorings: ring totals differ from the histogram of the assignments; " +
                          where, what="totals"))
    if rec is not None:
        gaps = np.diff(reps)
        close = bool(len(gaps) and (gaps < 2 * ds_tol).any())
        rec.case(case, close, ["ringassign:" + case["base"]] + (["rings_closer_than_2tol"] if close else []))
    return fails


def run_shard(rec):
    quick = rec.tier == "quick"
    if rec.shard == 0:
        run_cases(rec, "regression", REGRESSION, lambda c: check(c, rec))
    hyp_run(rec, "cells", cases(20000 if quick else 50000), lambda c: check(c, rec),
            max_examples=130 if quick else 450)
    # large cells / high d* limits: search boxes of up to 150 000 (400 000) points, processed by the library in one go
    hyp_run(rec, "cells_bigbox", cases(150000 if quick else 400000), lambda c: check(c, rec),
            max_examples=5 if quick else 30, shrink=False)
    hyp_run(rec, "ringassign", ringcases(), lambda c: check_ringassign(c, rec), max_examples=60 if quick else 600)


def replay(sub, case, rec):
    if sub == "ringassign":
        return check_ringassign(case, rec)
    return check(case, rec)
