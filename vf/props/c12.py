"""C12 - peak properties and frame-to-frame merging conserve pixels and intensity."""
import io
import numpy as np
from hypothesis import strategies as st
from vf import gens
from vf.runner import hyp_run, run_cases, guard, guard_deadline, fail, exc_failure

THOROUGH_SCALE = 6      # multiplies every generated-case budget of the thorough tier
RULE = ("drivers: labelimage, peaksearcher.peaksearch with three thresholds, and (one case in six) the command-line program peaksearch_driver on EDF files (angle from Omega / a named motor / -T -S, reader thread or --singleThread); " +
        "histories of 1-40 frames of 3x3..48x48 built from a generated voxel set: random fills (incl. empty frames), "
        "'tubes' (3-D paths that wander, fork and re-join between frames), explicit bridges (two blobs on one frame "
        "joined only through the previous frame or only through the next frame), chains over >= 3 frames; integer "
        "intensities; thresholds below/between/at pixel values; omega start/step multiples of 1/16; driven through "
        "labelimage.peaksearch -> mergelast -> finalise and through peaksearcher.peaksearch (several thresholds at "
        "once, 2-D output written before each merge); oracle = 3-D connected components (8-connected in frame, same "
        "pixel on adjacent frames) from scipy AND the harness union-find; non-trivial = a component spanning >= 3 "
        "frames that is split into >= 2 blobs on some frame (fork/join); distinct = hash of the case")
ASSUMPTIONS = ["output columns are compared at their 4-decimal print precision (integers exactly)",
               "IMax position only has to be a position of the maximum inside the component (ties)",
               "onfirst/onlast flags are not part of the statement and are not compared"]

STRUCT = np.zeros((3, 3, 3), int)
STRUCT[1] = 1
STRUCT[0, 1, 1] = 1
STRUCT[2, 1, 1] = 1


def shard_layout(tier):
    return [("opt", None)] * (8 if tier == "quick" else 16)


@st.composite
def cases(draw, maxfr=16, maxdim=20):
    kind = draw(st.sampled_from(["random", "random", "tubes", "tubes", "bridge_prev", "bridge_next", "chain", "deepcomb"]))
    nfr = draw(st.integers(1, maxfr))
    ns = draw(st.integers(3, maxdim))
    nf = draw(st.integers(3, maxdim))
    if kind == "deepcomb":           # needs room for >= 6 bars and their bridges
        ns = draw(st.integers(17, max(17, maxdim + 4)))
        nf = draw(st.integers(15, max(15, maxdim + 4)))
        nfr = min(nfr, 4)
    fill = draw(st.sampled_from([0.03, 0.1, 0.2, 0.35, 0.6]))
    seed = draw(st.integers(0, 2 ** 31 - 1))
    thpos = draw(st.sampled_from(["low", "low", "mid", "at"]))
    om0 = draw(st.integers(-3200, 3200)) / 16.0
    step = draw(st.sampled_from([1, 4, 16, -4, 3])) / 16.0
    empty = draw(st.booleans())
    imtype = draw(st.sampled_from(["f32", "f32", "u16", "i32", "f64", "fortran", "strided", "small", "small", "tiny", "f32frac", "f32frac"]))
    return dict(kind=kind, nfr=nfr, ns=ns, nf=nf, fill=fill, seed=seed, thpos=thpos, om0=om0, step=step, empty=empty,
                imtype=imtype)


SCRIPT_EVERY = [1]        # the command-line route takes a second per case: every sixth case in the quick tier, every
                          # 36th of the (six times larger) thorough tier


def _h(case):
    import zlib
    return zlib.crc32(repr(sorted(case.items())).encode())


SCALES = {"small": 2.0 ** -10, "tiny": 2.0 ** -30}


def as_image(frame, imtype):
    """the same pixel values in the representations a detector image can arrive in"""
    if imtype == "u16":
        return frame.astype(np.uint16)
    if imtype == "i32":
        return frame.astype(np.int32)
    if imtype == "f64":
        return frame.astype(np.float64)
    if imtype == "fortran":
        return np.asfortranarray(frame)
    if imtype == "strided":
        big = np.zeros((frame.shape[0], 2 * frame.shape[1] + 1), np.float32)
        big[:, 1::2] = frame
        return big[:, 1::2]
    return frame


def build(case):
    rng = np.random.RandomState(case["seed"] % (2 ** 32))
    nfr, ns, nf = case["nfr"], case["ns"], case["nf"]
    kind = case["kind"]
    occ = np.zeros((nfr, ns, nf), bool)
    if kind == "random":
        occ = rng.random_sample((nfr, ns, nf)) < case["fill"]
    elif kind == "manyblobs":
        # a frame with more separate spots than the labelling kernel's equivalence table holds at first (16384): every
        # second pixel of every second row, some of them two pixels wide; the frames after it hold a few of them
        occ[0, 0::2, 0::2] = True
        wide = rng.random_sample((ns, nf)) < 0.02
        occ[0, 0::2, 1::4] |= wide[0::2, 1::4]
        for k in range(1, nfr):
            occ[k] = occ[0] & (rng.random_sample((ns, nf)) < 0.001)
    elif kind == "deepcomb":
        # a blob whose provisional labels are united in a long chain on one frame; a few isolated pixels elsewhere
        for k in range(nfr):
            occ[k] = gens.build_image("deepcomb", ns, nf, int(rng.randint(0, 8))) > 0 if k % 2 == 0 else \
                (rng.random_sample((ns, nf)) < 0.02)
    elif kind in ("tubes", "chain"):
        npaths = 1 + rng.randint(0, 4)
        starts = []
        for _ in range(npaths):
            if starts and rng.random_sample() < 0.6:
                k, s, f = starts[rng.randint(len(starts))]      # fork from an existing voxel
            else:
                k, s, f = rng.randint(nfr), rng.randint(ns), rng.randint(nf)
            length = rng.randint(2, 3 * nfr + 4)
            dk = 1 if rng.random_sample() < 0.5 else -1
            for _ in range(length):
                occ[k, s, f] = True
                starts.append((k, s, f))
                r = rng.random_sample()
                if r < 0.45 and 0 <= k + dk < nfr:
                    k += dk                                       # same pixel on the adjacent frame
                    occ[k, s, f] = True
                elif r < 0.9 or kind == "chain":
                    s = int(np.clip(s + rng.randint(-1, 2), 0, ns - 1))
                    f = int(np.clip(f + rng.randint(-1, 2), 0, nf - 1))
                else:
                    dk = -dk
    else:
        # two blobs on frame k joined only through frame k-1 (bridge_prev) or k+1 (bridge_next)
        k = rng.randint(0, nfr)
        other = k - 1 if kind == "bridge_prev" else k + 1
        s = rng.randint(0, ns)
        f0 = rng.randint(0, max(1, nf - 3))
        f1 = min(nf - 1, f0 + 2 + rng.randint(0, max(1, nf - f0 - 2)))
        occ[k, s, f0] = True
        occ[k, s, f1] = True
        if 0 <= other < nfr:
            occ[other, s, f0:f1 + 1] = True
        occ |= rng.random_sample((nfr, ns, nf)) < 0.03
    if case["empty"] and nfr > 1:
        occ[rng.randint(nfr)] = False
    vals = rng.randint(1, 50, (nfr, ns, nf))
    vol = np.where(occ, vals, 0).astype(np.float32)
    th = {"low": 0.5, "mid": 10.5, "at": 10.0}[case["thpos"]]
    if case.get("imtype") == "f32frac":
        # corrected data (dark / flat field): values between the whole numbers, some of them between a threshold and
        # the whole number below it (quarters: every sum stays exact)
        vol = vol + np.where(occ & (rng.random_sample(vol.shape) < 0.5), np.float32(0.25), np.float32(0.0))
    if case.get("imtype") in SCALES:
        # normalised data (divided by a monitor / flat field): the same pattern 1024 times weaker, whole peaks sum
        # to less than 0.1; the scale is a power of two, so nothing is rounded
        # ("tiny": 2^-30, e.g. data in units of the incident flux - the intensities print as 0.0000, the positions
        # and the pixel counts are still written in full)
        vol = vol * np.float32(SCALES[case["imtype"]])
        th = th * SCALES[case["imtype"]]
    omegas = case["om0"] + case["step"] * np.arange(nfr)
    return vol, th, omegas


def components(vol, th):
    from scipy import ndimage
    from vf.oracles import DSU
    lab, n = ndimage.label(vol > th, structure=STRUCT)
    # second opinion: own union find on the voxel set
    pts = np.argwhere(vol > th)
    if 0 < len(pts) <= 3000:
        index = {tuple(p): i for i, p in enumerate(pts)}
        d = DSU(len(pts))
        for i, (k, s, f) in enumerate(pts):
            for dk, ds_, df in ((0, 0, -1), (0, -1, -1), (0, -1, 0), (0, -1, 1), (-1, 0, 0)):
                j = index.get((k + dk, s + ds_, f + df))
                if j is not None:
                    d.union(i, j)
        if len(set(d.find(i) for i in range(len(pts)))) != n:
            raise RuntimeError("harness: scipy and union-find disagree on 3-D components")
    return lab, n


def expected_rows(vol, th, omegas):
    lab, n = components(vol, th)
    rows = []
    fork = 0
    if n == 0:
        return rows, 0
    from scipy import ndimage
    K, S, F = np.indices(vol.shape)
    om = omegas[K]
    s8 = np.ones((3, 3), int)
    for c in range(1, n + 1):
        m = lab == c
        I = vol[m].astype(float)
        sI = I.sum()
        row = dict(npx=int(m.sum()), sumI=sI, sumI2=(I * I).sum(),
                   s=(S[m] * I).sum() / sI, f=(F[m] * I).sum() / sI, o=(om[m] * I).sum() / sI,
                   imax=I.max(), mns=S[m].min(), mxs=S[m].max(), mnf=F[m].min(), mxf=F[m].max(),
                   mno=om[m].min(), mxo=om[m].max(),
                   maxpos=set(zip(S[m][I == I.max()].tolist(), F[m][I == I.max()].tolist(),
                                  np.round(om[m][I == I.max()], 4).tolist())))
        rows.append(row)
        ks = np.unique(K[m])
        if len(ks) >= 3:
            for k in ks:
                if ndimage.label(m[k], structure=s8)[1] >= 2:
                    fork += 1
                    break
    return rows, fork


COLS = ["Number_of_pixels", "sum_intensity", "sum_intensity^2", "s_raw", "f_raw", "omega", "IMax_int", "IMax_s",
        "IMax_f", "IMax_o", "Min_s", "Max_s", "Min_f", "Max_f", "Min_o", "Max_o", "avg_intensity", "sc", "fc",
        "spot3d_id"]


def parse(text):
    lines = text.split("\n")
    titles = None
    rows = []
    for ln in lines:
        if ln.startswith("#"):
            if titles is None and "=" not in ln:
                titles = ln[1:].split()
            continue
        if ln.strip():
            rows.append([float(x) for x in ln.split()])
    return titles, np.array(rows, float).reshape(-1, len(titles) if titles else 1)


def compare(name, text, vol, th, omegas, exp):
    fails = []
    titles, arr = parse(text)
    if titles is None:
        return [fail("format", "%s: no title line in the output" % name, driver=name)]
    T = {t: k for k, t in enumerate(titles)}
    missing = [c for c in COLS if c not in T]
    if missing:
        return [fail("format", "%s: columns %s missing" % (name, missing), driver=name)]
    if len(arr) != len(exp):
        return [fail("count", "%s: %d peaks written, %d connected components (pixels written %d, in components %d; "
                     "intensity written %.1f, in volume %.1f)" % (
                         name, len(arr), len(exp), int(arr[:, T["Number_of_pixels"]].sum()) if len(arr) else 0,
                         int((vol > th).sum()), arr[:, T["sum_intensity"]].sum() if len(arr) else 0,
                         float(vol[vol > th].sum())), driver=name)]
    if len(arr) == 0:
        return fails
    if not np.array_equal(arr[:, T["spot3d_id"]], np.arange(len(arr))):
        fails.append(fail("ids", "%s: spot3d_id is not 0..n-1 in output order" % name, driver=name))
    key = lambda r: (r[0], round(r[1], 4), r[2], r[3], r[4], r[5], r[6], round(r[7], 2), round(r[8], 2))
    got = sorted([key((a[T["Number_of_pixels"]], a[T["sum_intensity"]], a[T["Min_s"]], a[T["Max_s"]], a[T["Min_f"]],
                       a[T["Max_f"]], round(a[T["Min_o"]], 4), a[T["s_raw"]], a[T["f_raw"]])) + (i,)
                  for i, a in enumerate(arr)])
    ref = sorted([key((e["npx"], e["sumI"], e["mns"], e["mxs"], e["mnf"], e["mxf"], round(e["mno"], 4), e["s"],
                       e["f"])) + (i,) for i, e in enumerate(exp)])
    for g, r in zip(got, ref):
        a = arr[g[-1]]
        e = exp[r[-1]]
        checks = [("Number_of_pixels", e["npx"], 0), ("sum_intensity", e["sumI"], 1e-4),
                  ("sum_intensity^2", e["sumI2"], 1e-4), ("s_raw", e["s"], 1.01e-4), ("f_raw", e["f"], 1.01e-4),
                  ("omega", e["o"], 1.01e-4), ("sc", e["s"], 1.01e-4), ("fc", e["f"], 1.01e-4),
                  ("IMax_int", e["imax"], 1e-4), ("Min_s", e["mns"], 0), ("Max_s", e["mxs"], 0),
                  ("Min_f", e["mnf"], 0), ("Max_f", e["mxf"], 0), ("Min_o", e["mno"], 1.01e-4),
                  ("Max_o", e["mxo"], 1.01e-4), ("avg_intensity", e["sumI"] / e["npx"], 1.01e-4)]
        for col, val, tol in checks:
            if abs(a[T[col]] - val) > tol:
                fails.append(fail("value", "%s: peak with %d pixels / intensity %.1f (box s %d-%d f %d-%d): column %s = "
                                  "%r, component has %r" % (name, e["npx"], e["sumI"], e["mns"], e["mxs"], e["mnf"],
                                                            e["mxf"], col, a[T[col]], val), driver=name, col=col))
                break
        else:
            pos = (int(a[T["IMax_s"]]), int(a[T["IMax_f"]]), round(a[T["IMax_o"]], 4))
            if pos not in e["maxpos"]:
                fails.append(fail("value", "%s: IMax position %s is not a position of the maximum %s" %
                                  (name, pos, sorted(e["maxpos"])[:3]), driver=name, col="IMax_pos"))
        if fails:
            break
    return fails


class _Frame(object):
    def __init__(self, data, omega, k):
        self.data = data
        self.header = {"Omega": omega}
        self.currentframe = k


def check(case, rec=None):
    from ImageD11 import labelimage, peaksearcher, blobcorrector
    vol, th, omegas = build(case)
    exp, fork = expected_rows(vol, th, omegas)
    fails = []
    # ---- driver 1: labelimage
    out = io.StringIO()
    ok, li = guard(labelimage.labelimage, vol[0].shape, fileout=out, sptfile=io.StringIO())
    if not ok:
        return [exc_failure("labelimage()", li)]
    for k in range(len(vol)):
        ok, e = guard(li.peaksearch, as_image(vol[k], case.get("imtype", "f32")), th, float(omegas[k]))
        if ok:
            ok, e = guard(li.mergelast)
        if not ok:
            return [exc_failure("labelimage frame %d" % k, e)]
    ok, e = guard(li.finalise)
    if not ok:
        return [exc_failure("labelimage.finalise", e)]
    fails += compare("labelimage", out.getvalue(), vol, th, omegas, exp)
    # ---- driver 2: peaksearcher.peaksearch with three thresholds at once
    vs = SCALES.get(case.get("imtype"), 1.0)
    ths = sorted(set([th, 0.5 * vs, 20.5 * vs]))
    outs = {t: io.StringIO() for t in ths}
    labims = {t: labelimage.labelimage(vol[0].shape, fileout=outs[t], sptfile=io.StringIO()) for t in ths}
    for k in range(len(vol)):
        ok, e = guard(peaksearcher.peaksearch, "frame%04d" % k, _Frame(as_image(vol[k], case.get("imtype", "f32")), float(omegas[k]), k),
                      blobcorrector.perfect(), ths, labims)
        if not ok:
            fails.append(exc_failure("peaksearcher.peaksearch frame %d" % k, e))
            break
    else:
        for t in ths:
            ok, e = guard(labims[t].finalise)
            if not ok:
                fails.append(exc_failure("finalise", e))
                continue
            ex = exp if t == th else expected_rows(vol, t, omegas)[0]
            fails += compare("peaksearcher(threshold %g)" % t, outs[t].getvalue(), vol, t, omegas, ex)
    # ---- driver 3: the command line program (scripts/peaksearch.py = peaksearcher.peaksearch_driver) on image
    # files: EDF frames on disk, rotation angle in the header ("Omega", or another motor named with --omega_motor)
    # or given by -T start -S step with --OmegaOverRide; reader thread or --singleThread; several -t at once
    scr = "none"
    if case.get("imtype", "f32") in ("f32", "u16", "i32", "f64", "f32frac") and \
            _h(case) % ((3 if case.get("imtype") == "f32frac" else 6) * SCRIPT_EVERY[0]) == 0:
        import os, shutil, argparse, contextlib, fabio
        mode = ["Omega", "motor", "override"][(_h(case) // 6) % 3]
        one = bool((_h(case) // 18) % 2)
        scr = "script:%s:%s" % (mode, "one_thread" if one else "reader_thread")
        d = os.path.join(os.environ.get("VERIF_TMP", "."), "c12_script_%d" % os.getpid())
        shutil.rmtree(d, ignore_errors=True)
        os.makedirs(d)
        # the angle a frame is taken at by the program: header value (4 decimals written) or start + k * step
        step_eff = case["step"] if case["step"] != 0 else 1.0
        om_used = [round(float(o), 4) for o in omegas] if mode != "override" else \
            [case["om0"] + k * step_eff for k in range(len(vol))]
        for k in range(len(vol)):
            hd = {}
            if mode == "Omega":
                hd["Omega"] = "%.4f" % omegas[k]
            elif mode == "motor":
                hd["diffrz"] = "%.4f" % omegas[k]
            else:
                hd["Omega"] = "%.4f" % (omegas[k] + 33.0)             # must be ignored
            fabio.edfimage.edfimage(data=as_image(vol[k], case.get("imtype", "f32")), header=hd).write(
                os.path.join(d, "fr%04d.edf" % k))
        tlist = sorted(set([th, 0.5, 20.5]))
        args = ["-n", os.path.join(d, "fr"), "-f", "0", "-l", str(len(vol) - 1), "-o", os.path.join(d, "pk.spt"),
                "-p", "Y"]
        for t in tlist:
            args += ["-t", repr(float(t))]
        if mode == "motor":
            args += ["--omega_motor", "diffrz"]
        elif mode == "override":
            args += ["--OmegaOverRide", "-T", repr(float(case["om0"])), "-S", repr(float(step_eff))]
        if one:
            args += ["--singleThread"]

        def run_script():
            parser = peaksearcher.get_options(argparse.ArgumentParser())
            options, rest = parser.parse_known_args(args)
            with contextlib.redirect_stdout(io.StringIO()):
                peaksearcher.peaksearch_driver(options, rest)
        # the program runs reader / corrector / search threads: a thread that dies leaves the others waiting
        ok, e = guard_deadline(rec, "frames", case, 300, run_script)
        if not ok:
            fails.append(exc_failure("peaksearch_driver", e))
        else:
            oms = np.array(om_used, float)
            for t in tlist:
                name = os.path.join(d, "pk_t%d.flt" % t)
                if not os.path.exists(name):
                    fails.append(fail("format", "peaksearch_driver wrote no %s" % os.path.basename(name),
                                      driver="script"))
                    continue
                ex = expected_rows(vol, t, oms)[0]
                fails += compare("peaksearch_driver(%s, -t %g)" % (scr, t), open(name).read(), vol, t, oms, ex)
        shutil.rmtree(d, ignore_errors=True)
    if rec is not None:
        rec.case(case, fork > 0, ["kind:" + case["kind"], "th:" + case["thpos"], "image:" + case.get("imtype", "f32")] + (["fork_or_join"] if fork else []) +
                 ([scr] if scr != "none" else []) +
                 (["no_peaks"] if not exp else []))
        rec.note("components_compared", len(exp))
    return fails


def run_shard(rec):
    quick = rec.tier == "quick"
    SCRIPT_EVERY[0] = 1 if quick else 6
    hyp_run(rec, "frames", cases(16, 20), lambda c: check(c, rec), max_examples=150 if quick else 1500)
    many = st.builds(lambda seed, nfr, ns, nf: dict(kind="manyblobs", nfr=nfr, ns=ns, nf=nf, fill=0.25, seed=seed,
                                                    thpos="low", om0=0.0, step=0.25, empty=False, imtype="f32"),
                     st.integers(0, 2 ** 31 - 1), st.integers(1, 3), st.sampled_from([300, 364, 420]),
                     st.sampled_from([280, 366, 300]))
    hyp_run(rec, "frames_manyblobs", many, lambda c: check(c, rec), max_examples=1 if quick else 2, shrink=False)
    hyp_run(rec, "frames_large", cases(40, 48), lambda c: check(c, rec), max_examples=15 if quick else 200)


def replay(sub, case, rec):
    return check(case, rec)
