import numpy as np, itertools
from ImageD11 import transform, columnfile, parameters
from ImageD11.sinograms import point_by_point as pbp
rng=np.random.default_rng(0)
worst={}
for trial in range(300):
    flips=[(1,0,0,1),(1,0,0,-1),(-1,0,0,1),(-1,0,0,-1),(0,1,1,0),(0,1,-1,0),(0,-1,1,0),(0,-1,-1,0)]
    o11,o12,o21,o22=flips[rng.integers(8)]
    p=dict(y_center=rng.uniform(0,2048),z_center=rng.uniform(0,2048),y_size=rng.choice([-1,1])*rng.uniform(10,200),z_size=rng.choice([-1,1])*rng.uniform(10,200),
       distance=rng.uniform(5e4,5e5),wavelength=rng.uniform(0.1,1.0),omegasign=float(rng.choice([-1,1])),
       tilt_x=rng.normal()*0.05*rng.integers(2),tilt_y=rng.normal()*0.05*rng.integers(2),tilt_z=rng.normal()*0.05*rng.integers(2),
       o11=o11,o12=o12,o21=o21,o22=o22,wedge=rng.uniform(-20,20)*rng.integers(2),chi=rng.uniform(-20,20)*rng.integers(2),
       t_x=rng.uniform(-500,500)*rng.integers(2),t_y=rng.uniform(-500,500)*rng.integers(2),t_z=rng.uniform(-500,500)*rng.integers(2))
    n=50
    sc=rng.uniform(0,2048,n); fc=rng.uniform(0,2048,n); om=rng.uniform(-360,360,n)
    cf=columnfile.colfile_from_dict({'sc':sc.copy(),'fc':fc.copy(),'omega':om.copy()})
    cf.parameters=parameters.parameters(**p)
    cs=cf.copy(); cfst=cf.copy()
    cs.updateGeometry(fast=False); cfst.updateGeometry(fast=True)
    for t in ['xl','yl','zl','tth','eta','ds','gx','gy','gz']:
        a,b=cs[t],cfst[t]
        if t=='eta':
            d=np.abs((a-b+180)%360-180).max()
        else:
            d=np.abs(a-b).max()/max(1e-300,np.abs(a).max())
        worst[t]=max(worst.get(t,0),d)
    if p['omegasign']==1:
        g=pbp.compute_gve(sc,fc,om,np.zeros(n),p['distance'],p['y_center'],p['y_size'],p['tilt_y'],p['z_center'],p['z_size'],p['tilt_z'],p['tilt_x'],
            float(o11),float(o12),float(o21),float(o22),p['t_x'],p['t_y'],p['t_z'],p['wedge'],p['chi'],p['wavelength'])
        d=np.abs(g-np.array([cs.gx,cs.gy,cs.gz])).max()/np.abs(g).max()
        worst['numba']=max(worst.get('numba',0),d)
print(worst)
