import numpy as np, itertools
from scipy.spatial.transform import Rotation
from ImageD11 import unitcell, indexing, cImageD11
cell=[4.1,5.2,6.3,80,95,105]
uc=unitcell.unitcell(cell,'P')
uc.makerings(1.2,tol=0.001)
for r in range(8): print(r, uc.ringds[r], uc.ringhkls[uc.ringds[r]])
U=Rotation.random(random_state=3).as_matrix()
UB=U@uc.B; ubi0=np.linalg.inv(UB)
r1,r2=7,0
h1=np.array([1,-1,-1]); h2=np.array([0,0,-1])
g1=UB@h1; g2=UB@h2
pairs,cangs,matrs=uc.getanglehkls(r1,r2)
print('pairs',pairs,cangs)
uc.orient(r1,g1,r2,g2,crange=1e-4)
for u in uc.UBIlist:
    print(np.round(u@g1,4),np.round(u@g2,4), np.round(u@np.linalg.inv(ubi0),3))
