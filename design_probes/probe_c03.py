import numpy as np, itertools, math
from ImageD11 import unitcell
rng=np.random.default_rng(0)
def brute(cell,sym,dsmax):
    u=unitcell.unitcell(cell,sym)
    a=cell[:3]
    hm=[int(math.floor(dsmax*x))+1 for x in a]
    H=np.mgrid[-hm[0]:hm[0]+1,-hm[1]:hm[1]+1,-hm[2]:hm[2]+1].reshape(3,-1).T
    ds=np.sqrt(np.einsum('ij,jk,ik->i',H,u.gi,H))
    rules={'P':lambda h,k,l:np.ones(len(h),bool),'A':lambda h,k,l:(k+l)%2==0,'B':lambda h,k,l:(h+l)%2==0,'C':lambda h,k,l:(h+k)%2==0,
     'I':lambda h,k,l:(h+k+l)%2==0,'F':lambda h,k,l:((h+k)%2==0)&((h+l)%2==0)&((k+l)%2==0),'R':lambda h,k,l:(-h+k+l)%3==0}
    m=(ds<dsmax)&(ds>0)&rules[sym](H[:,0],H[:,1],H[:,2])
    return set(map(tuple,H[m])),u
bad=0
for i in range(40):
    cell=list(rng.uniform(2,10,3))+list(rng.uniform(60,120,3))
    try:
        exp,u=brute(cell,'P',1.2)
    except Exception as e:
        print('skip',e); continue
    got=[p[1] for p in u.gethkls(1.2)]
    gs=set(got)
    if gs!=exp or len(got)!=len(gs):
        bad+=1
        if bad<4: print(cell,'missing',len(exp-gs),'extra',len(gs-exp),'dups',len(got)-len(gs), sorted(exp-gs)[:5])
print('bad',bad)
for sym in 'ABCIFR':
    exp,u=brute([4,5,6,90,90,90],sym,1.0)
    gs=set(p[1] for p in u.gethkls(1.0))
    print(sym, gs==exp, len(exp-gs), len(gs-exp))
