# design probe: stateful model check of columnfile (prototype of C17)
import os, sys, numpy as np, hypothesis
from hypothesis import settings, strategies as st, HealthCheck
from hypothesis.stateful import RuleBasedStateMachine, rule, invariant, precondition, initialize, run_state_machine_as_test
from ImageD11 import columnfile
NAMES=['a','b','c','d']
class CF(RuleBasedStateMachine):
    @initialize(n=st.integers(1,6), k=st.integers(1,3), data=st.data())
    def init(self, n, k, data):
        self.model={}
        d={}
        for name in NAMES[:k]:
            v=data.draw(st.lists(st.integers(-5,5),min_size=n,max_size=n))
            d[name]=np.array(v,float); self.model[name]=[float(x) for x in v]
        self.cf=columnfile.colfile_from_dict(d)
        self.n=n
        self.copies=[]
    def newcol(self, data):
        return data.draw(st.lists(st.integers(-5,5),min_size=self.n,max_size=self.n))
    @rule(name=st.sampled_from(NAMES), data=st.data())
    def addcolumn(self, name, data):
        v=self.newcol(data); self.cf.addcolumn(np.array(v,float),name); self.model[name]=[float(x) for x in v]
    @rule(data=st.data(), s=st.integers(-9,9))
    def setitem_scalar(self, data, s):
        name=data.draw(st.sampled_from(sorted(self.model))); self.cf[name]=s; self.model[name]=[float(s)]*self.n
    @rule(data=st.data())
    def setitem_array(self, data):
        name=data.draw(st.sampled_from(NAMES)); v=self.newcol(data); self.cf[name]=np.array(v,float); self.model[name]=[float(x) for x in v]
    @rule(data=st.data(), s=st.integers(-9,9))
    def setattr_scalar(self, data, s):
        name=data.draw(st.sampled_from(sorted(self.model))); setattr(self.cf,name,s); self.model[name]=[float(s)]*self.n
    @rule(data=st.data())
    def setattr_array(self, data):
        name=data.draw(st.sampled_from(sorted(self.model))); v=self.newcol(data); setattr(self.cf,name,np.array(v,float)); self.model[name]=[float(x) for x in v]
    @precondition(lambda self: self.n>0)
    @rule(data=st.data(), via=st.sampled_from(['attr','item','get']), s=st.integers(-9,9))
    def write_through_view(self, data, via, s):
        name=data.draw(st.sampled_from(sorted(self.model))); i=data.draw(st.integers(0,self.n-1))
        view={'attr':lambda:getattr(self.cf,name),'item':lambda:self.cf[name],'get':lambda:self.cf.getcolumn(name)}[via]()
        view[i]=s; self.model[name][i]=float(s)
    @rule(data=st.data())
    def filter(self, data):
        m=data.draw(st.lists(st.booleans(),min_size=self.n,max_size=self.n))
        if not any(m): return    # empty columnfiles: separate class
        self.cf.filter(np.array(m,bool))
        for k in self.model: self.model[k]=[x for x,keep in zip(self.model[k],m) if keep]
        self.n=sum(m)
    @rule(data=st.data())
    def sortby(self, data):
        name=data.draw(st.sampled_from(sorted(self.model)))
        order=np.argsort(np.array(self.model[name]))   # same algorithm => same tie order
        self.cf.sortby(name)
        for k in self.model: self.model[k]=[self.model[k][i] for i in order]
    @rule(data=st.data())
    def reorder(self, data):
        p=data.draw(st.permutations(range(self.n)))
        self.cf.reorder(np.array(p,int))
        for k in self.model: self.model[k]=[self.model[k][i] for i in p]
    @rule()
    def get_bigarray(self):
        b=self.cf.bigarray
        assert b.shape==(len(self.model),self.n)
    @rule()
    def set_bigarray(self):
        self.cf.bigarray=[np.array(self.model[t],float) for t in self.cf.titles]
    @rule()
    def copy(self):
        c=self.cf.copy(); self.copies.append((c,{k:list(v) for k,v in self.model.items()}))
    @rule(data=st.data())
    def removerows(self, data):
        name=data.draw(st.sampled_from(sorted(self.model))); vals=data.draw(st.lists(st.integers(-5,5),min_size=1,max_size=2))
        keep=[int(x) not in vals for x in self.model[name]]
        if not any(keep): return
        self.cf.removerows(name, vals)
        for k in self.model: self.model[k]=[x for x,kp in zip(self.model[k],keep) if kp]
        self.n=sum(keep)
    @invariant()
    def consistent(self):
        if not hasattr(self,'cf'): return
        cf=self.cf
        assert cf.nrows==self.n, (cf.nrows,self.n)
        assert sorted(cf.titles)==sorted(self.model), (cf.titles, sorted(self.model))
        assert cf.ncols==len(cf.titles)
        for t in cf.titles:
            exp=self.model[t]
            for via,v in (('attr',getattr(cf,t)),('item',cf[t]),('get',cf.getcolumn(t))):
                assert np.ndim(v)==1 and len(v)==self.n, (t,via,v)
                assert list(map(float,v))==exp, (t,via,list(v),exp)
            # aliasing: the three views share storage
            a,b=getattr(cf,t),cf[t]
            assert np.shares_memory(np.asarray(a),np.asarray(b)), ('alias',t)
        for c,m in self.copies:
            for t,exp in m.items():
                assert list(map(float,c[t]))==exp, ('copy changed',t)
                if t in self.model and t in cf.titles:
                    assert not np.shares_memory(np.asarray(c[t]),np.asarray(cf[t]))
seed=int(os.environ.get('VERIF_SEED','1'))
n=int(sys.argv[1]) if len(sys.argv)>1 else 300
run_state_machine_as_test(hypothesis.seed(seed)(CF), settings=settings(max_examples=n, stateful_step_count=25, deadline=None, database=None, suppress_health_check=list(HealthCheck), report_multiple_bugs=False))
print('OK',n)
