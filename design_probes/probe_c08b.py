import numpy as np, time
from scipy.spatial.transform import Rotation
from ImageD11 import unitcell, indexing
indexing.loglevel=10
np.set_printoptions(precision=4,suppress=True)
rng=np.random.default_rng(0)
cell,sym=[2.87]*3+[90,90,90],'I'
uc=unitcell.unitcell(cell,sym)
hkls=np.array([p[1] for p in uc.gethkls(1.1)])
for trial in range(40):
    ng=int(rng.integers(1,6))
    ubis0=[]; gv=[]
    for g in range(ng):
        U=Rotation.random(random_state=int(rng.integers(1<<30))).as_matrix()
        UB=U@uc.B; ubis0.append(np.linalg.inv(UB)); gv.append((UB@hkls.T).T)
    gv=np.concatenate(gv); gv=gv[rng.permutation(len(gv))]
    ind=indexing.indexer(unitcell=unitcell.unitcell(cell,sym),gv=gv,wavelength=0.3,minpks=int(0.9*len(hkls)),hkl_tol=0.02,cosine_tol=0.002,ds_tol=0.004,max_grains=100)
    ind.score_all_pairs()
    for u in ind.ubis:
        Ms=[u@np.linalg.inv(u0) for u0 in ubis0]
        errs=[np.abs(M-np.round(M)).max() for M in Ms]
        k=int(np.argmin(errs))
        if errs[k]>1e-5:
            print('trial',trial,'ng',ng,'unmatched; best err',errs[k],'score',indexing.calc_drlv2(u,gv).__lt__(0.02**2).sum(),'of',len(hkls))
            print(Ms[k]); print('cell',indexing.ubitocellpars(u))
            break
