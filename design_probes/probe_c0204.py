import numpy as np, warnings
warnings.simplefilter('ignore')
from scipy.spatial.transform import Rotation
from ImageD11 import transform, unitcell, grain, indexing
from ImageD11.sinograms import tensor_map, point_by_point as pbp
rng=np.random.default_rng(7)
# C02 invalid flags
nb=0; nchk=0
for trial in range(200):
    wv=rng.uniform(0.1,1.5); wedge=rng.uniform(-20,20)*rng.integers(2); chi=rng.uniform(-20,20)*rng.integers(2)
    n=500
    g=rng.normal(size=(3,n)); g=g/np.linalg.norm(g,axis=0)*rng.uniform(0,2.4/wv,n)
    # include near-axis vectors
    g[:2,:50]*=0.01
    tth,(e1,e2),(o1,o2)=transform.uncompute_g_vectors(g,wv,wedge,chi)
    # independent diffractability: axis in lab
    W=np.array([[np.cos(np.radians(wedge)),0,np.sin(np.radians(wedge))],[0,1,0],[-np.sin(np.radians(wedge)),0,np.cos(np.radians(wedge))]])
    C=np.array([[1,0,0],[0,np.cos(np.radians(chi)),np.sin(np.radians(chi))],[0,-np.sin(np.radians(chi)),np.cos(np.radians(chi))]])
    # g = R C W k -> k = W^T C^T R^T g ; k_x = x.(W^T C^T) (R^T g); let a = (C W) x  (vector in the "omega frame")
    a=(C@W)@np.array([1.,0,0])
    gz=g[2]; gperp=np.hypot(g[0],g[1]); modg2=(g*g).sum(0)
    target=-wv*modg2/2     # k_x required
    lo=a[2]*gz-np.hypot(a[0],a[1])*gperp; hi=a[2]*gz+np.hypot(a[0],a[1])*gperp
    margin=1e-9*(1+np.abs(target))
    can=(target>lo+margin)&(target<hi-margin); cannot=(target<lo-margin)|(target>hi+margin)
    flagged=~np.isfinite(tth)|(tth==0)
    nchk+=n
    if (flagged&can).any() or ((~flagged)&cannot).any():
        nb+=1
        if nb<4: print('C02 mismatch', (flagged&can).sum(), ((~flagged)&cannot).sum(), 'wedge',wedge,'chi',chi)
    ok=~flagged
    g1=transform.compute_g_vectors(tth[ok],e1[ok],o1[ok],wv,wedge,chi); g2=transform.compute_g_vectors(tth[ok],e2[ok],o2[ok],wv,wedge,chi)
    err=max(np.abs(g1-g[:,ok]).max(),np.abs(g2-g[:,ok]).max()) if ok.any() else 0
    if err>1e-9: print('roundtrip err',err)
print('C02 bad',nb,'checked',nchk)
# C04
bad=0
for trial in range(300):
    cell=[rng.uniform(2,30),rng.uniform(2,30),rng.uniform(2,30),rng.uniform(55,125),rng.uniform(55,125),rng.uniform(55,125)]
    try: uc=unitcell.unitcell(cell,'P')
    except Exception: continue
    ca,cb,cg=np.cos(np.radians(cell[3:]))
    if 1-ca*ca-cb*cb-cg*cg+2*ca*cb*cg<0.05: continue
    U=Rotation.random(random_state=int(rng.integers(1<<30))).as_matrix()
    ubi=np.linalg.inv(U@uc.B)
    g=grain.grain(ubi)
    e=[np.abs(g.unitcell-cell).max(),np.abs(g.U-U).max(),np.abs(g.B-uc.B).max()/np.abs(uc.B).max(),np.abs(g.UB-U@uc.B).max(),
       np.abs(np.array(indexing.ubitocellpars(ubi))-cell).max(),np.abs(indexing.ubitoU(ubi)-U).max(),np.abs(indexing.ubitoB(ubi)-uc.B).max()/np.abs(uc.B).max(),
       np.abs(pbp.ubi_to_unitcell(ubi)-cell).max(), np.abs(pbp.ubi_and_ucell_to_u(ubi,np.array(cell))-U).max(),
       np.abs(g.mt-uc.g).max()/np.abs(uc.g).max(), np.abs(g.rmt-uc.gi).max()/np.abs(uc.gi).max()]
    if max(e)>1e-8:
        bad+=1
        if bad<5: print('C04',np.array(e),cell)
print('C04 bad',bad)
