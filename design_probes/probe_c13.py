import numpy as np, time, sys
from ImageD11 import cImageD11
def ref_labels(im):
    ns,nf=im.shape
    # steepest ascent reference, no ties assumed
    up=np.zeros((ns,nf,2),int)
    lab=np.zeros((ns,nf),np.int32)
    ismax=np.zeros((ns,nf),bool)
    for i in range(1,ns-1):
        for j in range(1,nf-1):
            w=im[i-1:i+2,j-1:j+2]
            k=np.argmax(w); di,dj=divmod(k,3)
            up[i,j]=(i+di-1,j+dj-1)
            ismax[i,j]=(di==1 and dj==1)
    n=0
    for i in range(1,ns-1):
        for j in range(1,nf-1):
            if ismax[i,j]:
                n+=1; lab[i,j]=n
    for i in range(1,ns-1):
        for j in range(1,nf-1):
            a,b=i,j
            while not ismax[a,b]:
                a,b=up[a,b]
                if a in (0,ns-1) or b in (0,nf-1): break
            lab[i,j]=lab[a,b]
    return lab,n
rng=np.random.default_rng(1)
bad=0;tot=0
t0=time.time()
for trial in range(300):
    ns,nf=rng.integers(8,60,2)
    y,x=np.mgrid[0:ns,0:nf]
    # smooth image w/ few maxima => long paths
    im=np.zeros((ns,nf))
    for _ in range(rng.integers(1,4)):
        cy,cx=rng.uniform(0,ns),rng.uniform(0,nf)
        im+=np.exp(-((y-cy)**2+(x-cx)**2)/rng.uniform(20,400))*1000
    im=(im+rng.uniform(0,1e-3,im.shape)).astype(np.float32)
    cImageD11.cimaged11_omp_set_num_threads(1)
    l1=np.full((ns,nf),-7,np.int32); w1=np.full((ns,nf),77,np.uint8)
    n1=cImageD11.localmaxlabel(im,l1,w1)
    for nt in (2,3,7,16,48):
        cImageD11.cimaged11_omp_set_num_threads(int(nt))
        for rep in range(5):
            l2=np.full((ns,nf),-7,np.int32); w2=np.full((ns,nf),77,np.uint8)
            n2=cImageD11.localmaxlabel(im,l2,w2)
            tot+=1
            if n2!=n1 or (l1!=l2).any():
                bad+=1
                if bad<5: print('DIFF trial',trial,'shape',ns,nf,'nt',nt,'ndiff',(l1!=l2).sum(), 'vals',np.unique(l2[l1!=l2])[:5])
print('bad',bad,'of',tot,'time',time.time()-t0)
print("---- oracle vs 1 thread")
cImageD11.cimaged11_omp_set_num_threads(1)
bad=0
for trial in range(60):
    ns,nf=rng.integers(3,40,2)
    im=rng.permutation(ns*nf).reshape(ns,nf).astype(np.float32)
    if trial%2:
        y,x=np.mgrid[0:ns,0:nf]
        im=(np.exp(-((y-ns/2.3)**2+(x-nf/1.7)**2)/50)*1000+rng.uniform(0,1e-3,im.shape)).astype(np.float32)
    l1=np.full((ns,nf),-7,np.int32); w1=np.full((ns,nf),77,np.uint8)
    n1=cImageD11.localmaxlabel(im,l1,w1)
    lab,n=ref_labels(im)
    if n!=n1 or (lab!=l1).any():
        bad+=1; print('oracle mismatch',ns,nf,n,n1,(lab!=l1).sum())
print('oracle bad',bad)
