import numpy as np, time
from scipy.spatial.transform import Rotation
from ImageD11 import cImageD11, indexing, unitcell
rng=np.random.default_rng(2)
def refscore(ubi,gv,tol):
    return (indexing.calc_drlv2(ubi,gv)<tol*tol).sum()
bad=0
for trial in range(300):
    cell=[rng.uniform(3,8),rng.uniform(3,8),rng.uniform(3,8),rng.uniform(70,110),rng.uniform(70,110),rng.uniform(70,110)]
    uc=unitcell.unitcell(cell,'P')
    U=Rotation.random(random_state=int(rng.integers(1<<30))).as_matrix()
    UB=U@uc.B; ubi=np.linalg.inv(UB)
    n=int(rng.integers(0,400))
    h=rng.integers(-8,9,(n,3)).astype(float)
    noise=rng.normal(size=(n,3))*rng.choice([1e-4,1e-2,0.05,0.2])
    gv=np.ascontiguousarray((UB@(h+noise).T).T)
    tol=rng.uniform(0.001,0.5)
    ubi_t=ubi*(1+rng.normal()*0.002)
    s=cImageD11.score(ubi_t,gv,tol)
    r=refscore(ubi_t,gv,tol) if n else 0
    if s!=r: bad+=1; print('score',s,r)
    if n:
        u2=ubi_t.copy()
        npk,drlv2=cImageD11.score_and_refine(u2,gv,tol)
        # reference
        hh=ubi_t@gv.T; hi=np.floor(hh+0.5); d2=((hh-hi)**2).sum(0); m=d2<tol*tol
        if m.sum()!=npk: bad+=1; print('sar count')
        R=gv[m].T@hi[:,m].T; H=hi[:,m]@hi[:,m].T
        if m.sum()>0 and abs(np.linalg.det(H))>1e-9:
            UBo=R@np.linalg.inv(H); ref=np.linalg.inv(UBo)
            if not np.allclose(ref,u2,rtol=1e-8,atol=1e-10): bad+=1; print('sar fit',np.abs(ref-u2).max())
            if m.sum() and not np.isclose(drlv2,d2[m].mean()): bad+=1;print('sar drlv')
        # refine_assigned
        labels=rng.integers(0,3,n).astype(np.int32)
        u3=np.ascontiguousarray(ubi_t.copy())
        npk3,dr3=cImageD11.refine_assigned(u3,gv,labels,1)
        m=labels==1
        if npk3!=m.sum(): bad+=1; print('ra count')
        R=gv[m].T@hi[:,m].T; H=hi[:,m]@hi[:,m].T
        if m.sum()>3 and abs(np.linalg.det(H))>1e-6:
            ref=np.linalg.inv(R@np.linalg.inv(H))
            if not np.allclose(ref,u3,rtol=1e-8,atol=1e-10): bad+=1; print('ra fit',trial,np.abs(ref-u3).max())
print('bad',bad)
# C07
bad=0
for trial in range(200):
    ng=int(rng.integers(1,12)); n=int(rng.integers(1,20000))
    a=4.0
    ubis=[np.linalg.inv(Rotation.random(random_state=int(rng.integers(1<<30))).as_matrix()/a) for _ in range(ng)]
    if ng>2: ubis[1]=ubis[0]@Rotation.from_euler('z',90,degrees=True).as_matrix()*(1+1e-4)   # near twin
    own=rng.integers(-1,ng,n)
    h=rng.integers(-6,7,(n,3)).astype(float)+rng.normal(size=(n,3))*0.02
    gv=np.array([ (np.linalg.inv(ubis[o])@hh) if o>=0 else rng.normal(size=3)*0.7 for o,hh in zip(own,h)])
    tol=rng.uniform(0.01,0.3)
    res={}
    for nt in (1,3,16):
        cImageD11.cimaged11_omp_set_num_threads(nt)
        drlv2=np.full(n,2.0); labels=np.full(n,-1,np.int32)
        order=rng.permutation(ng)
        for i in order:
            cImageD11.score_and_assign(ubis[i],gv,tol,drlv2,labels,int(i))
        res[nt]=(labels.copy(),drlv2.copy())
    E=np.array([indexing.calc_drlv2(u,gv) for u in ubis]); E2=np.where(E<tol*tol,E,np.inf)
    best=E2.argmin(0); bv=E2.min(0); exp=np.where(np.isfinite(bv),best,-1)
    for nt,(l,d) in res.items():
        # ties excluded
        srt=np.sort(E2,axis=0); tie=(srt.shape[0]>1)&np.isfinite(srt[0])&(np.abs(srt[0]-srt[min(1,srt.shape[0]-1)])<1e-12) if ng>1 else np.zeros(n,bool)
        ok=((l==exp)|tie).all() and np.allclose(d[exp>=0],bv[exp>=0]) and (d[exp<0]==2.0).all()
        if not ok: bad+=1; print('C07 bad',trial,nt,(l!=exp).sum())
print('C07 bad',bad)
