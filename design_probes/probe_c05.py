import numpy as np, itertools
from scipy.spatial.transform import Rotation
from ImageD11 import unitcell, indexing, cImageD11
rng=np.random.default_rng(0)
cells={'cubicF':([4.05]*3+[90,90,90],'F'),'cubicI':([2.87]*3+[90,90,90],'I'),'hex':([2.95,2.95,4.68,90,90,120],'P'),
 'tet':([4.59,4.59,2.96,90,90,90],'P'),'ortho':([4.1,5.2,6.3,90,90,90],'P'),'mono':([5.1,6.2,7.3,90,103,90],'P'),
 'rhombR':([4.76,4.76,12.99,90,90,120],'R'),'rhombP':([5.0,5.0,5.0,70,70,70],'P'),'tric':([4.1,5.2,6.3,80,95,105],'P'),'pseudo':([4.0,4.0,4.001,90,90,90],'P')}
def equivalent(ubi, ubi0, hkls):
    # same lattice: ubi @ inv(ubi0) integer unimodular
    M=ubi@np.linalg.inv(ubi0)
    return np.abs(M-np.round(M)).max()<1e-6 and abs(abs(np.linalg.det(np.round(M)))-1)<1e-9
tot=0;bad=0
for name,(cell,sym) in cells.items():
    uc=unitcell.unitcell(cell,sym)
    uc.makerings(1.2,tol=0.001 if name!='pseudo' else 0.002)
    nr=len(uc.ringds)
    nb=0;nt=0
    for trial in range(60):
        U=Rotation.random(random_state=int(rng.integers(1<<30))).as_matrix()
        UB=U@uc.B; ubi0=np.linalg.inv(UB)
        r1,r2=rng.integers(0,min(nr,8),2)
        h1s=uc.ringhkls[uc.ringds[r1]]; h2s=uc.ringhkls[uc.ringds[r2]]
        h1=np.array(h1s[rng.integers(len(h1s))]); h2=np.array(h2s[rng.integers(len(h2s))])
        if np.linalg.norm(np.cross(uc.B@h1,uc.B@h2))<1e-6: continue
        g1=UB@h1; g2=UB@h2
        uc.orient(r1,g1,r2,g2,crange=1e-4)
        nt+=1
        ok=any(equivalent(u,ubi0,None) for u in uc.UBIlist)
        # duplicates?
        dup=False
        for a,b in itertools.combinations(uc.UBIlist,2):
            if equivalent(a,b,None): dup=True
        # each candidate: right-handed, cell params
        cp_ok=all(np.allclose(indexing.ubitocellpars(u),cell,atol=1e-5) and np.linalg.det(u)>0 for u in uc.UBIlist)
        if not ok or dup or not cp_ok:
            nb+=1
            if nb<3: print(name,'r',r1,r2,h1,h2,'found',ok,'dup',dup,'cp',cp_ok,'ncand',len(uc.UBIlist))
    print(name,'rings',nr,'trials',nt,'bad',nb)
