import numpy as np, time, os, sys, io, contextlib
from scipy.spatial.transform import Rotation
from ImageD11 import unitcell, transform, columnfile, parameters, grain, refinegrains, indexing
rng=np.random.default_rng(int(sys.argv[1]) if len(sys.argv)>1 else 0)
os.chdir('/tmp/c09')
def simulate(pars, ubis, ts, cellobj, dsmax):
    hkls=np.array([p[1] for p in cellobj.gethkls(dsmax)])
    rows=[]
    wvln=pars['wavelength']
    for ig,(ubi,t) in enumerate(zip(ubis,ts)):
        ub=np.linalg.inv(ubi)
        g=ub@hkls.T
        tth,(e1,e2),(o1,o2)=transform.uncompute_g_vectors(g,wvln,wedge=pars['wedge'],chi=pars['chi'])
        for eta,om in ((e1,o1),(e2,o2)):
            valid=(tth>0)
            fc,sc=transform.compute_xyz_from_tth_eta(tth,eta,om,t_x=t[0],t_y=t[1],t_z=t[2],**{k:v for k,v in pars.items() if k not in('t_x','t_y','t_z')})
            ok=valid&(fc>0)&(fc<2048)&(sc>0)&(sc<2048)
            for k in np.nonzero(ok)[0]:
                rows.append((sc[k],fc[k],om[k]*pars['omegasign'],ig,hkls[k][0],hkls[k][1],hkls[k][2]))
    return np.array(rows)
flips=[(1,0,0,1),(1,0,0,-1),(-1,0,0,1),(-1,0,0,-1),(0,1,1,0),(0,1,-1,0),(0,-1,1,0),(0,-1,-1,0)]
o11,o12,o21,o22=flips[rng.integers(8)]
cell=[4.05,4.05,4.05,90,90,90]
pars=dict(y_center=1000.+rng.uniform(-50,50),z_center=1030.+rng.uniform(-50,50),y_size=50.,z_size=50.,distance=150000.+rng.uniform(-1e4,1e4),wavelength=0.28,omegasign=float(rng.choice([-1,1])),
   tilt_x=rng.normal()*0.01,tilt_y=rng.normal()*0.01,tilt_z=rng.normal()*0.01,o11=o11,o12=o12,o21=o21,o22=o22,wedge=rng.uniform(-5,5)*rng.integers(2),chi=rng.uniform(-5,5)*rng.integers(2),t_x=0.,t_y=0.,t_z=0.)
uc=unitcell.unitcell(cell,'F')
ng=int(rng.integers(1,4))
ubis=[];ts=[]
for i in range(ng):
    U=Rotation.random(random_state=int(rng.integers(1<<30))).as_matrix()
    e=rng.normal(size=(3,3))*2e-3; e=(e+e.T)/2
    ubis.append(np.linalg.inv(U@(np.eye(3)+e)@uc.B)); ts.append(rng.uniform(-500,500,3))
rows=simulate(pars,ubis,ts,uc,1.0)
print('peaks',len(rows),'per grain',np.bincount(rows[:,3].astype(int)))
cf=columnfile.colfile_from_dict({'sc':rows[:,0].copy(),'fc':rows[:,1].copy(),'omega':rows[:,2].copy(),'truth':rows[:,3].copy(),'h0':rows[:,4].copy(),'k0':rows[:,5].copy(),'l0':rows[:,6].copy()})
allp=dict(pars); allp.update({'cell__a':cell[0],'cell__b':cell[1],'cell__c':cell[2],'cell_alpha':90.,'cell_beta':90.,'cell_gamma':90.,'cell_lattice_[P,A,B,C,I,F,R]':'F'})
cf.parameters=parameters.parameters(**allp)
cf.writefile('sim.flt'); parameters.parameters(**allp).saveparameters('sim.par')
# perturbed start
start=[]
for ubi,t in zip(ubis,ts):
    dR=Rotation.from_rotvec(rng.normal(size=3)*0.002).as_matrix()
    start.append(grain.grain(ubi@dR.T*(1+rng.normal()*1e-3), t+rng.uniform(-100,100,3)))
grain.write_grain_file('start.map',start)
t0=time.time()
with contextlib.redirect_stdout(io.StringIO()):
    o=refinegrains.refinegrains(OmFloat=False, tolerance=0.05)
    o.loadparameters('sim.par'); o.loadfiltered('sim.flt'); o.readubis('start.map')
    o.generate_grains(); o.refinepositions(); o.savegrains('out.map',sort_npks=False)
print('time',time.time()-t0)
out=grain.read_grain_file('out.map')
for g,ubi,t in zip(out,ubis,ts):
    print('ubi err',np.abs(g.ubi-ubi).max(),'t err',np.abs(g.translation-t).max(), 'npks',g.npks.strip())
lab=o.scandata['sim.flt'].labels
print('label agreement',(lab==rows[:,3]).mean())
c=o.scandata['sim.flt']
m=lab>=0
print('hkl agreement',((c.h[m]==rows[m,4])&(c.k[m]==rows[m,5])&(c.l[m]==rows[m,6])).mean())
