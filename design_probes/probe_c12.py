import numpy as np, io, time
from scipy import ndimage
from ImageD11 import labelimage, columnfile
rng=np.random.default_rng(1)
struct=np.zeros((3,3,3),int); struct[1]=1; struct[0,1,1]=1; struct[2,1,1]=1
def run(frames,th,omegas):
    out=io.StringIO()
    li=labelimage.labelimage(frames[0].shape, fileout=out, sptfile=io.StringIO())
    for f,o in zip(frames,omegas):
        li.peaksearch(f,th,o)
        li.mergelast()
    li.finalise()
    lines=[l for l in out.getvalue().split('\n') if l and not l.startswith('#')]
    titles=out.getvalue().split('\n')[0][1:].split()
    arr=np.array([[float(x) for x in l.split()] for l in lines]).reshape(-1,len(titles))
    return titles,arr
bad=0;t0=time.time();N=300
for trial in range(N):
    nfr=rng.integers(1,12); ns,nf=rng.integers(3,14,2)
    fill=rng.choice([0.05,0.15,0.3,0.5])
    vol=((rng.random((nfr,ns,nf))<fill)*rng.integers(1,50,(nfr,ns,nf))).astype(np.float32)
    if rng.random()<0.3: vol[rng.integers(nfr)]=0
    th=0.5
    omegas=np.arange(nfr)*0.25+10
    titles,arr=run(list(vol),th,omegas)
    lab,n=ndimage.label(vol>th,structure=struct)
    ok = (len(arr)==n)
    if ok and n>0:
        idx=np.arange(1,n+1)
        npx=ndimage.sum(vol>th,lab,idx); sI=ndimage.sum(vol,lab,idx)
        o,s,f=np.indices(vol.shape)
        om=omegas[o]
        co=ndimage.sum(vol*om,lab,idx)/sI; cs=ndimage.sum(vol*s,lab,idx)/sI; cf=ndimage.sum(vol*f,lab,idx)/sI
        ref=np.array(sorted(zip(npx,sI,np.round(cs,3),np.round(cf,3),np.round(co,3))))
        T={t:k for k,t in enumerate(titles)}
        got=np.array(sorted(zip(arr[:,T['Number_of_pixels']],arr[:,T['sum_intensity']],np.round(arr[:,T['s_raw']],3),np.round(arr[:,T['f_raw']],3),np.round(arr[:,T['omega']],3))))
        ok=np.allclose(ref,got,atol=2e-3)
    if not ok:
        bad+=1
        if bad<4: print('BAD',trial,vol.shape,'n',n,'got',len(arr))
print('bad',bad,'of',N,time.time()-t0)
