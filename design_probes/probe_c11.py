import numpy as np, time
from scipy import ndimage
from ImageD11 import cImageD11
rng=np.random.default_rng(0)
s8=np.ones((3,3),int); s4=np.array([[0,1,0],[1,1,1],[0,1,0]])
def same_partition(a,b):
    # a,b label arrays (0 bg) same partition?
    if ((a>0)!=(b>0)).any(): return False
    m=a>0
    pairs=set(zip(a[m].tolist(),b[m].tolist()))
    return len(pairs)==len(set(p[0] for p in pairs))==len(set(p[1] for p in pairs))
bad=0;n=0;t0=time.time()
def imgs():
    for trial in range(300):
        ns,nf=rng.integers(2,40,2)
        fill=rng.choice([0,0.05,0.3,0.5,0.7,0.95,1.0])
        yield (rng.random((ns,nf))<fill).astype(np.float32)*rng.integers(1,100,(ns,nf))
    # checkerboard big -> >16384 labels in 4-conn
    cb=np.indices((300,300)).sum(axis=0)%2
    yield cb.astype(np.float32)*5
    # spiral / comb
    c=np.zeros((200,400),np.float32); c[::2,:]=1; c[1::4,0]=1; c[3::4,-1]=1
    yield c
    c=np.zeros((257,511),np.float32); c[:, ::2]=1; c[-1,:]=1
    yield c
    c=np.zeros((257,511),np.float32); c[:, ::2]=1; c[0,:]=1
    yield c
for im in imgs():
    for con8 in (1,0):
        th=0.5
        lab=np.full(im.shape,-5,np.int32)
        npk=cImageD11.connectedpixels(im,lab,th,0,con8)
        ref,nref=ndimage.label(im>th,structure=s8 if con8 else s4)
        n+=1
        ok = npk==nref and same_partition(lab,ref) and (set(np.unique(lab))-{0}==set(range(1,npk+1)))
        if not ok:
            bad+=1; print('BAD dense',im.shape,con8,npk,nref)
    # sparse
    mask=im>0
    if mask.sum()==0: continue
    i,j=np.nonzero(mask); i=i.astype(np.uint16); j=j.astype(np.uint16); v=im[mask].astype(np.float32)
    th=rng.choice([0,0.5,30])
    sl=np.full(len(v),-3,np.int32)
    ns_=cImageD11.sparse_connectedpixels(v,i,j,th,sl)
    ref,nref=ndimage.label(im>th,structure=s8)
    d=np.zeros(im.shape,np.int32); d[i,j]=sl
    if not(ns_==nref and same_partition(d,ref)):
        bad+=1; print('BAD sparse',im.shape,ns_,nref)
    Z=np.full((im.shape[0]+2)*(im.shape[1]+2),-9,np.int32)
    sl2=np.zeros(len(v),np.int32)
    ns2=cImageD11.sparse_connectedpixels_splat(v,i,j,th,sl2,Z,im.shape[0],im.shape[1])
    d2=np.zeros(im.shape,np.int32); d2[i,j]=sl2
    if not(ns2==nref and same_partition(d2,ref)):
        bad+=1; print('BAD splat',im.shape,ns2,nref)
print('cases',n,'bad',bad,time.time()-t0)
