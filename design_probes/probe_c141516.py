import numpy as np, time, itertools
from collections import Counter
from ImageD11 import cImageD11, sparseframe, sym_u
from ImageD11.sinograms import properties
import scipy.sparse.csgraph, scipy.sparse
rng=np.random.default_rng(4)
# C14 overlaps
bad=0
ol=sparseframe.overlaps_linear(); om=sparseframe.overlaps_matrix()
for trial in range(300):
    ns,nf=rng.integers(2,30,2)
    def frame():
        lab=np.zeros((ns,nf),np.int32)
        nl=int(rng.integers(1,8))
        lab=rng.integers(0,nl+1,(ns,nf))*(rng.random((ns,nf))<rng.choice([0.1,0.5,0.9]))
        # relabel to use 1..n contiguous
        u=np.unique(lab[lab>0])
        if len(u)==0: lab[rng.integers(ns),rng.integers(nf)]=1; u=np.array([1])
        remap=np.zeros(lab.max()+1,int); remap[u]=np.arange(1,len(u)+1); lab=remap[lab]
        i,j=np.nonzero(lab)
        return i.astype(np.uint16),j.astype(np.uint16),lab[i,j].astype(np.int32),len(u),lab
    i1,j1,l1,n1,L1=frame(); i2,j2,l2,n2,L2=frame()
    m=(L1>0)&(L2>0)
    exp=Counter(zip(L1[m].tolist(),L2[m].tolist()))
    nl_,rcl=ol(i1,j1,l1,n1,i2,j2,l2,n2)
    got=Counter({(a,b):c for a,b,c in (rcl.tolist() if rcl is not None else [])})
    nm_,res=om(i1,j1,l1,n1,i2,j2,l2,n2)
    gotm=Counter({(a,b):c for a,b,c in res.tolist()})
    if got!=exp or gotm!=exp or nl_!=len(exp) or nm_!=len(exp):
        bad+=1
        if bad<4: print('C14 bad',trial,len(exp),nl_,nm_)
print('C14 bad',bad)
# C15
bad=0
import numba
for trial in range(150):
    n=int(rng.integers(1,3000)); ne=int(rng.integers(0,3*n))
    kind=rng.integers(3)
    if kind==0:
        i=rng.integers(0,n,ne); j=rng.integers(0,n,ne)
    elif kind==1: # chain
        p=rng.permutation(n); i=p[:-1]; j=p[1:]
    else:
        i=np.zeros(ne,int); j=rng.integers(0,n,ne)
    i=i.astype(np.int64); j=j.astype(np.int64)
    ncc,ref=scipy.sparse.csgraph.connected_components(scipy.sparse.coo_matrix((np.ones(len(i)),(i,j)),shape=(n,n)),directed=False)
    for nt in (1,4,16):
        numba.set_num_threads(nt)
        nl,lab=properties.find_ND_labels(i,j,n,verbose=0)
        pairs=set(zip(lab.tolist(),ref.tolist()))
        if nl!=ncc or len(pairs)!=ncc or set(lab.tolist())!=set(range(ncc)):
            bad+=1; print('C15 bad',trial,nt,nl,ncc)
print('C15 bad',bad)
# C16
orders=dict(cubic=24,hexagonal=12,trigonal=6,rhombohedralP=6,tetragonal=8,orthorhombic=4,monoclinic_a=2,monoclinic_b=2,monoclinic_c=2,triclinic=1)
for name,o in orders.items():
    g=sym_u.getgroup(name)()
    G=g.group
    closed=all(any(np.allclose(a@b,c) for c in G) for a in G for b in G)
    dets=[np.linalg.det(a) for a in G]
    integer=all(np.allclose(a,np.round(a)) for a in G)
    print(name,len(G),o,closed,np.allclose(dets,1),integer)
