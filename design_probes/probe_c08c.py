import numpy as np, time, itertools
from scipy.spatial.transform import Rotation
from ImageD11 import unitcell, indexing
indexing.loglevel=10
np.set_printoptions(precision=5,suppress=True)
rng=np.random.default_rng(0)
def equivalent(ubi, ubi0,tol=1e-5):
    M=ubi@np.linalg.inv(ubi0)
    return np.abs(M-np.round(M)).max()<tol and abs(abs(np.linalg.det(np.round(M)))-1)<1e-9
for (cell,sym,dsmax) in [([2.87]*3+[90,90,90],'I',1.1),([3.9]*3+[90,90,90],'P',1.1),([4.59,4.59,2.96,90,90,90],'P',1.1)]:
  uc=unitcell.unitcell(cell,sym)
  hkls=np.array([p[1] for p in uc.gethkls(dsmax)])
  nbad=0
  for trial in range(40):
    ng=int(rng.integers(1,6))
    ubis0=[]; gv=[]
    for g in range(ng):
        U=Rotation.random(random_state=int(rng.integers(1<<30))).as_matrix()
        UB=U@uc.B; ubis0.append(np.linalg.inv(UB)); gv.append((UB@hkls.T).T)
    gv=np.concatenate(gv); gv=gv[rng.permutation(len(gv))]
    ind=indexing.indexer(unitcell=unitcell.unitcell(cell,sym),gv=gv,wavelength=0.3,minpks=int(0.9*len(hkls)),hkl_tol=0.02,cosine_tol=0.002,ds_tol=0.004,max_grains=100)
    ind.score_all_pairs()
    match=[[k for k,u0 in enumerate(ubis0) if equivalent(u,u0)] for u in ind.ubis]
    found=set(k for m in match for k in m)
    if len(found)!=ng or len(ind.ubis)!=ng:
        nbad+=1
        if nbad<3:
            print(sym,'trial',trial,'ng',ng,'reported',len(ind.ubis),'match',match,'scores',ind.scores)
            for u,m in zip(ind.ubis,match):
                if not m:
                    errs=[np.abs(u@np.linalg.inv(u0)-np.round(u@np.linalg.inv(u0))).max() for u0 in ubis0]
                    print('  unmatched: errs',np.array(errs),'npk',(indexing.calc_drlv2(u,gv)<0.02**2).sum(),'cell',np.array(indexing.ubitocellpars(u)))
  print(sym,'bad',nbad)
