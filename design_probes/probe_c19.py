import numpy as np, time
from ImageD11.sinograms import geometry
from ImageD11.sinograms.roi_iradon import run_iradon
rng=np.random.default_rng(0)
worst=0; bad=0; t0=time.time()
N=120
for trial in range(N):
    ystep=rng.choice([1.0,2.5,10.0])
    ny=int(rng.integers(41,100))
    ymin=rng.uniform(-50,50)*ystep
    ybincens=ymin+np.arange(ny)*ystep
    ycen=ybincens[ny//2] if ny%2 else 0.5*(ybincens[ny//2-1]+ybincens[ny//2])
    y0=ycen+rng.uniform(-10,10)*ystep
    full=rng.random()<0.5
    omega=np.arange(0,360 if full else 180,1.0)
    # sample position inside scanned disc: |r| < min(y0-ymin, ymax-y0) 
    rmax=min(y0-ybincens[0], ybincens[-1]-y0)-2*ystep
    r=rmax*np.sqrt(rng.random()); a=rng.uniform(0,2*np.pi)
    sx,sy=r*np.cos(a),r*np.sin(a)
    dty=geometry.dty_values_grain_in_beam(sx,sy,y0,omega)
    pos=(dty-ymin)/ystep
    sino=np.zeros((ny,len(omega)))
    # gaussian blob width 1px along dty
    ii=np.arange(ny)[:,None]
    sino=np.exp(-0.5*((ii-pos[None,:])/0.8)**2)
    shift,pad=geometry.sino_shift_and_pad(y0,ny,ymin,ystep)
    recon=run_iradon(sino,omega,pad=pad,shift=shift)
    ri_p,rj_p=geometry.sample_to_recon(sx,sy,recon.shape,ystep)
    ri,rj=np.unravel_index(np.argmax(recon),recon.shape)
    # local centroid
    w=recon[ri-2:ri+3,rj-2:rj+3].clip(0)
    gi,gj=np.mgrid[ri-2:ri+3,rj-2:rj+3]
    ci,cj=(w*gi).sum()/w.sum(),(w*gj).sum()/w.sum()
    d=np.hypot(ri-ri_p,rj-rj_p); dc=np.hypot(ci-ri_p,cj-rj_p)
    worst=max(worst,d)
    if d>1.5:
        bad+=1; print('BAD',trial,'ny',ny,'full',full,'y0off',(y0-ycen)/ystep,'pred',ri_p,rj_p,'got',ri,rj,'d',d,'dc',dc,'shape',recon.shape,'pad',pad,'shift',shift)
print('worst',worst,'bad',bad,'of',N,'time',time.time()-t0)
