import numpy as np, os, h5py
from ImageD11 import columnfile, parameters, grain, indexing
rng=np.random.default_rng(3)
os.chdir('/tmp/c09')
titles=['sc','fc','omega','Number_of_pixels','U11','eps11_s','myweird_col','h','gx']
n=5
d={t:(rng.normal(size=n)*10.0**rng.integers(-12,12,n)) for t in titles}
for t in ['Number_of_pixels','h']: d[t]=np.round(rng.normal(size=n)*1000)
d['sc'][0]=-0.0
cf=columnfile.colfile_from_dict(d)
cf.parameters=parameters.parameters(wavelength=0.3,cell_lattice='F',n=3,name='abc')
cf.writefile('rt.flt')
back=columnfile.columnfile('rt.flt')
print(back.titles==titles, back.parameters.parameters)
for t in titles:
    fmt=columnfile.FORMATS.get(t,'%f')
    print(t,fmt,np.abs(back[t]-d[t]).max(), np.max(np.abs(back[t]-d[t])/np.maximum(np.abs(d[t]),1e-300)))
if os.path.exists('rt.h5'): os.remove('rt.h5')
columnfile.colfile_to_hdf(cf,'rt.h5',name='peaks')
b2=columnfile.colfile_from_hdf('rt.h5')
print(sorted(b2.titles)==sorted(titles), all((b2[t]==d[t]).all() for t in titles), b2.titles, b2['h'].dtype)
# same-length overwrite
cf2=cf.copy(); cf2.sc[:]=5
columnfile.colfile_to_hdf(cf2,'rt.h5',name='peaks')
print((columnfile.colfile_from_hdf('rt.h5').sc==5).all())
cf3=cf.copyrows(np.array([0,1]))
try:
    columnfile.colfile_to_hdf(cf3,'rt.h5',name='peaks'); print('diff len ok', columnfile.colfile_from_hdf('rt.h5').nrows)
except Exception as e: print('diff len raises',type(e).__name__, str(e)[:60])
# pars
p=parameters.parameters(a=1,b=2.5,c='hello',d=-0.0,e=1e300,f=12345678901234567890,g=float('inf'),h_i='1e5')
p.saveparameters('rt.par'); q=parameters.parameters(); q.loadparameters('rt.par')
print({k:(v,type(v).__name__) for k,v in q.parameters.items()})
# grains
gs=[grain.grain(rng.normal(size=(3,3))+3*np.eye(3), rng.normal(size=3)*100) for _ in range(3)]
for i,g in enumerate(gs):
    if np.linalg.det(g.ubi)<0: g.set_ubi(-g.ubi)
    g.name='g%d:x'%i; g.npks=10+i
gs[1].translation=None
grain.write_grain_file('rt.map',gs); bk=grain.read_grain_file('rt.map')
for a,b in zip(gs,bk): print(np.abs(a.ubi-b.ubi).max()/np.abs(a.ubi).max(), None if a.translation is None else np.abs(a.translation-b.translation).max(), repr(b.name), repr(b.npks), b.translation is None)
if os.path.exists('rtg.h5'): os.remove('rtg.h5')
grain.write_grain_file_h5('rtg.h5',gs); bk=grain.read_grain_file_h5('rtg.h5')
for a,b in zip(gs,bk): print((a.ubi==b.ubi).all(), getattr(b,'translation',None), repr(b.name), repr(b.npks))
