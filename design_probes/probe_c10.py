import numpy as np
from scipy.spatial.transform import Rotation
from ImageD11 import unitcell, grain
from ImageD11.sinograms import tensor_map
rng=np.random.default_rng(3)
cell=[4.0,5.0,6.5,80,95,105]
uc=unitcell.unitcell(cell,'P')
B0=uc.B
R=Rotation.random(random_state=5).as_matrix()
e=rng.normal(size=(3,3))*0.01; e=(e+e.T)/2
S=np.eye(3)+e
ubi=np.linalg.inv(B0)@S@R.T
g=grain.grain(ubi)
print('ref m=.5',np.abs(g.eps_grain_matrix(cell,m=0.5)-e).max())
print('lab m=.5',np.abs(g.eps_sample_matrix(cell,m=0.5)-R@e@R.T).max())
ubis=np.full((1,2,2,3,3),np.nan); ubis[0,0,1]=ubi; ubis[0,1,0]=ubi
tm=tensor_map.TensorMap(maps={'UBI':ubis.copy(),'phase_ids':np.zeros((1,2,2),int)},phases={0:uc})
ec=tm.eps_crystal
es=tm.eps_sample
print('tm crystal',np.abs(ec[0,0,1]-e).max(), 'tm sample (via rotate)',np.abs(es[0,0,1]-R@e@R.T).max())
tm2=tensor_map.TensorMap(maps={'UBI':ubis.copy(),'phase_ids':np.zeros((1,2,2),int)},phases={0:uc})
es2=tm2.eps_sample
print('tm2 sample direct',np.abs(es2[0,0,1]-R@e@R.T).max())
ec2=tm2.eps_crystal
print('tm2 crystal via rotate',np.abs(ec2[0,0,1]-e).max())
print('U vs R', np.abs(g.U-R).max(), np.abs(tm.U[0,0,1]-g.U).max())
