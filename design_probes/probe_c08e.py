# design probe: uniqueness-history invariant of indexer.score_all_pairs on noisy data
import numpy as np, time, itertools, sys
from scipy.spatial.transform import Rotation
from ImageD11 import unitcell, indexing
indexing.loglevel=10
rng=np.random.default_rng(int(sys.argv[1]) if len(sys.argv)>1 else 5)
viol=0; tot=0; t0=time.time(); unimod=0
for (cell,sym,dsmax) in [([4.05]*3+[90,90,90],'F',1.0),([2.95,2.95,4.68,90,90,120],'P',0.9),([4.1,5.2,6.3,90,90,90],'P',0.7)]:
  uc=unitcell.unitcell(cell,sym)
  hkls=np.array([p[1] for p in uc.gethkls(dsmax)])
  for trial in range(25):
    ng=int(rng.integers(1,6))
    gv=[]
    for g in range(ng):
        U=Rotation.random(random_state=int(rng.integers(1<<30))).as_matrix()
        keep=rng.random(len(hkls))<rng.uniform(0.5,1)
        gv.append((U@uc.B@hkls[keep].T).T)
    gv=np.concatenate(gv)
    gv=gv+rng.normal(size=gv.shape)*rng.choice([1e-4,5e-4,2e-3,5e-3])
    nsp=int(rng.integers(0,len(gv)))
    sp=rng.normal(size=(nsp,3)); sp=sp/np.linalg.norm(sp,axis=1)[:,None]*rng.uniform(0.1,dsmax,nsp)[:,None]
    gv=np.concatenate([gv,sp]); gv=gv[rng.permutation(len(gv))]
    minpks=int(rng.choice([5,10,20,0.5*len(hkls)])); tol=rng.choice([0.01,0.02,0.05,0.1])
    uq=float(rng.choice([0.3,0.5,0.8]))
    ind=indexing.indexer(unitcell=unitcell.unitcell(cell,sym),gv=gv,wavelength=0.3,minpks=minpks,hkl_tol=tol,cosine_tol=rng.choice([0.002,0.01]),ds_tol=rng.choice([0.004,0.01]),max_grains=100,uniqueness=uq)
    ind.score_all_pairs()
    seen_lo=np.zeros(len(gv),bool)   # definitely indexed by an earlier grain
    seen_hi=np.zeros(len(gv),bool)
    for k,u in enumerate(ind.ubis):
        tot+=1
        E=indexing.calc_drlv2(u,gv)
        lo=E<tol*tol*(1-1e-9); hi=E<tol*tol*(1+1e-9)
        # best case for the code: new peaks counted generously
        frac_hi=(hi&~seen_lo).sum()/max(1,lo.sum())
        if not frac_hi>uq:
            viol+=1
            if viol<5: print('uniq viol',k,frac_hi,uq,lo.sum())
        seen_lo|=lo; seen_hi|=hi
    for a,b in itertools.combinations(ind.ubis,2):
        M=a@np.linalg.inv(b)
        if np.abs(M-np.round(M)).max()<1e-6: unimod+=1
print('reported',tot,'uniq viol',viol,'unimodular dups',unimod,time.time()-t0)
