import numpy as np, h5py, traceback
from ImageD11 import sparseframe
rng=np.random.default_rng(0)
data=rng.integers(0,100,size=(7,9)).astype(np.uint16)
mask=(data>50)
spf=sparseframe.from_data_mask(mask,data,{'a':1})
print(spf, spf.meta)
d=spf.to_dense('intensity')
print('roundtrip', (d==np.where(mask,data,0)).all())
# unsorted
order=rng.permutation(spf.nnz)
u=sparseframe.sparse_frame(spf.row[order],spf.col[order],spf.shape,pixels={'intensity':spf.pixels['intensity'][order]})
try:
    u.sort(); print('sorted ok', (u.row==spf.row).all())
except Exception as e:
    print('sort failed:',repr(e))
try:
    with h5py.File('/tmp/probe_spf.h5','w') as h:
        g=h.create_group('f')
        spf.to_hdf_group(g)
        back=sparseframe.from_hdf_group(g)
        print('hdf roundtrip', back==spf, back.meta)
except Exception as e:
    traceback.print_exc()
spf2=sparseframe.from_data_cut(data,50)
print(spf2==spf)
