import numpy as np, time
from scipy.spatial.transform import Rotation
from ImageD11 import unitcell, indexing
indexing.loglevel=10
rng=np.random.default_rng(0)
cells={'cubicF':([4.05]*3+[90,90,90],'F'),'cubicI':([2.87]*3+[90,90,90],'I'),'cubicP':([3.9]*3+[90,90,90],'P'),'hex':([2.95,2.95,4.68,90,90,120],'P'),
 'tet':([4.59,4.59,2.96,90,90,90],'P'),'ortho':([4.1,5.2,6.3,90,90,90],'P'),'mono':([5.1,6.2,7.3,90,103,90],'P'),
 'rhombR':([4.76,4.76,12.99,90,90,120],'R')}
def equivalent(ubi, ubi0):
    M=ubi@np.linalg.inv(ubi0)
    return np.abs(M-np.round(M)).max()<1e-5 and abs(abs(np.linalg.det(np.round(M)))-1)<1e-9
for name,(cell,sym) in cells.items():
    t0=time.time()
    uc=unitcell.unitcell(cell,sym)
    dsmax=0.9 if name in('mono','ortho','rhombR') else 1.1
    hkls=np.array([p[1] for p in uc.gethkls(dsmax)])
    res=[]
    for trial in range(5):
        ng=int(rng.integers(1,6))
        ubis0=[]; gv=[]
        for g in range(ng):
            U=Rotation.random(random_state=int(rng.integers(1<<30))).as_matrix()
            UB=U@uc.B; ubis0.append(np.linalg.inv(UB)); gv.append((UB@hkls.T).T)
        gv=np.concatenate(gv)
        gv=gv[rng.permutation(len(gv))]
        ind=indexing.indexer(unitcell=unitcell.unitcell(cell,sym),gv=gv,wavelength=0.3,minpks=int(0.9*len(hkls)),hkl_tol=0.02,cosine_tol=0.002,ds_tol=0.004,max_grains=100)
        ind.score_all_pairs()
        found=[any(equivalent(u,u0) for u in ind.ubis) for u0 in ubis0]
        extra=len(ind.ubis)-sum(found)
        res.append((ng,sum(found),len(ind.ubis)))
    print(name,len(hkls),'pks/grain',res,'%.1fs'%(time.time()-t0))
