# design probe: harness-side forward model (independent of uncompute_g_vectors /
# compute_xyz_from_tth_eta), validated against ImageD11's forward path
import numpy as np, sys
from scipy.spatial.transform import Rotation
from ImageD11 import transform, unitcell
rng=np.random.default_rng(int(sys.argv[1]) if len(sys.argv)>1 else 0)
def Rz(a):
    c,s=np.cos(a),np.sin(a); return np.array([[c,-s,0],[s,c,0],[0,0,1.]])
def Ry(a):
    c,s=np.cos(a),np.sin(a); return np.array([[c,0,s],[0,1,0],[-s,0,c.real]])
def Rx(a):
    c,s=np.cos(a),np.sin(a); return np.array([[1,0,0],[0,c,-s],[0,s,c]])
def forward(p, ub, t, hkls):
    """returns sc, fc, omega(observed motor value), hkl index for all spots on the detector.
    Conventions (from the docs in transform.py): g = Om(w) . Chi . Wedge . k with
    Om = [[c,s,0],[-s,c,0],[0,0,1]], Wedge=[[cw,0,sw],[0,1,0],[-sw,0,cw]], Chi=[[1,0,0],[0,cc,sc],[0,-sc,cc]]
    w = omegasign*motor.  k = (unit scattered - unit incident)/lambda, incident along +x.
    grain origin in lab = (Chi.Wedge)^-1 . Om^-1 . t
    detector: xyz = D . [0, f', s'] + [dist,0,0], (s',f') = O . [(sc-zc)*zs,(fc-yc)*ys], D = Rx(tx)Ry(ty)Rz(tz)
    """
    wl=p['wavelength']
    W=Ry(-np.radians(p['wedge']))     # = [[cw,0,-sw]..]^T ... checked numerically below
    W=np.array([[np.cos(np.radians(p['wedge'])),0,np.sin(np.radians(p['wedge']))],[0,1,0],[-np.sin(np.radians(p['wedge'])),0,np.cos(np.radians(p['wedge']))]])
    C=np.array([[1,0,0],[0,np.cos(np.radians(p['chi'])),np.sin(np.radians(p['chi']))],[0,-np.sin(np.radians(p['chi'])),np.cos(np.radians(p['chi']))]])
    CW=C@W; CWi=CW.T
    D=Rx(p['tilt_x'])@Ry(p['tilt_y'])@Rz(p['tilt_z'])
    O=np.array([[p['o11'],p['o12']],[p['o21'],p['o22']]],float)
    out=[]
    g=(ub@hkls.T).T
    for ih,gv in enumerate(g):
        # k(w) = CWi . Om(w)^T gv ; Laue: |k + x/wl| = 1/wl  <=> k_x = -wl |g|^2 / 2
        a=CW@np.array([1.,0,0])          # x-hat seen from the omega frame: k_x = a . (Om^T g)
        # Om^T g = [c gx - s gy, s gx + c gy, gz]
        A= a[0]*gv[0]+a[1]*gv[1]; B= -a[0]*gv[1]+a[1]*gv[0]   # k_x = A c + B s + a2 gz
        rhs=-wl*(gv@gv)/2 - a[2]*gv[2]
        r=np.hypot(A,B)
        if r<1e-12 or abs(rhs/r)>=1: continue
        phi=np.arctan2(B,A)
        for sgn in (1,-1):
            w=phi+sgn*np.arccos(rhs/r)
            c,s=np.cos(w),np.sin(w)
            OmT=np.array([[c,-s,0],[s,c,0],[0,0,1.]])
            k=CWi@(OmT@gv)
            shat=wl*k+np.array([1.,0,0])          # unit scattered direction
            assert abs(np.linalg.norm(shat)-1)<1e-9
            origin=CWi@(OmT@t)
            # origin + L*shat = [dist,0,0] + D[:,1]*f' + D[:,2]*s'
            M=np.array([shat,-D[:,1],-D[:,2]]).T
            try: L,fp,sp=np.linalg.solve(M,np.array([p['distance'],0,0])-origin)
            except np.linalg.LinAlgError: continue
            if L<=0: continue
            zy=np.linalg.solve(O,np.array([sp,fp]))
            sc=zy[0]/p['z_size']+p['z_center']; fc=zy[1]/p['y_size']+p['y_center']
            if 0<sc<2048 and 0<fc<2048:
                out.append((sc,fc,np.degrees(w)/p['omegasign'],ih))
    return np.array(out)
flips=[(1,0,0,1),(1,0,0,-1),(-1,0,0,1),(-1,0,0,-1),(0,1,1,0),(0,1,-1,0),(0,-1,1,0),(0,-1,-1,0)]
worst=0; nsp=0
for trial in range(200):
    o11,o12,o21,o22=flips[rng.integers(8)]
    p=dict(y_center=1000.+rng.uniform(-50,50),z_center=1030.+rng.uniform(-50,50),y_size=rng.choice([-1,1])*50.,z_size=rng.choice([-1,1])*50.,distance=150000.+rng.uniform(-1e4,1e4),wavelength=0.28,omegasign=float(rng.choice([-1,1])),
       tilt_x=rng.normal()*0.02,tilt_y=rng.normal()*0.02,tilt_z=rng.normal()*0.02,o11=o11,o12=o12,o21=o21,o22=o22,wedge=rng.uniform(-10,10)*rng.integers(2),chi=rng.uniform(-10,10)*rng.integers(2))
    uc=unitcell.unitcell([4.05]*3+[90]*3,'F')
    hkls=np.array([q[1] for q in uc.gethkls(0.8)])
    U=Rotation.random(random_state=int(rng.integers(1<<30))).as_matrix(); ub=U@uc.B
    t=rng.uniform(-500,500,3)*rng.integers(2)
    spots=forward(p,ub,t,hkls)
    if len(spots)==0: continue
    sc,fc,om,ih=spots.T
    # ImageD11 forward path
    xyz=transform.compute_xyz_lab((sc,fc),**p)
    tth,eta=transform.compute_tth_eta_from_xyz(xyz,om*p['omegasign'],t_x=t[0],t_y=t[1],t_z=t[2],wedge=p['wedge'],chi=p['chi'])
    g=transform.compute_g_vectors(tth,eta,om*p['omegasign'],p['wavelength'],p['wedge'],p['chi'])
    gtrue=(ub@hkls[ih.astype(int)].T)
    worst=max(worst,np.abs(g-gtrue).max()); nsp+=len(sc)
print('spots',nsp,'worst |g-gtrue|',worst)
