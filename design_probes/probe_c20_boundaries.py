# design probe: boundary shapes for the sparse / mask kernels (run under the ASan build)
import numpy as np, itertools
from ImageD11 import cImageD11 as c
rng=np.random.default_rng(0)
n=0
for trial in range(3000):
    ns,nf=rng.integers(2,9,2)
    fill=rng.choice([0.02,0.2,0.6,1.0])
    m=rng.random((ns,nf))<fill
    k=rng.integers(5)
    if k==0: m[:]=False; m[rng.integers(ns),rng.integers(nf)]=True
    if k==1: m[0,:]=True
    if k==2: m[:,-1]=True; m[-1,:]=True
    if k==3: m[:]=False; m[-1,-1]=True; m[0,0]=True
    if m.sum()==0: m[0,0]=True
    i,j=np.nonzero(m); i=i.astype(np.uint16); j=j.astype(np.uint16); nnz=len(i)
    v=rng.permutation(nnz).astype(np.float32)+1
    lab=np.full(nnz,-3,np.int32)
    c.sparse_connectedpixels(v,i,j,float(rng.choice([0,0.5,nnz/2])),lab)
    Z=np.full((ns+2)*(nf+2),-9,np.int32); lab2=np.zeros(nnz,np.int32)
    c.sparse_connectedpixels_splat(v,i,j,0.5,lab2,Z,int(ns),int(nf))
    s=np.full(nnz,np.nan,np.float32); c.sparse_smooth(v,i,j,s)
    MV=np.full(nnz,np.nan,np.float32); iMV=np.full(nnz,-1,np.int32); l3=np.full(nnz,-1,np.int32)
    npk=c.sparse_localmaxlabel(v,i,j,MV,iMV,l3)
    assert l3.min()>=1 and l3.max()<=npk
    assert c.sparse_is_sorted(i,j)==0
    nl=max(1,int(lab.max()))
    lab1=np.where(lab>0,lab,1).astype(np.int32)
    res=c.sparse_blob2Dproperties(v,i,j,lab1,nl)
    # mask kernels
    msk=m.astype(np.int8); ret=np.full(m.shape,7,np.int8)
    c.clean_mask(msk,ret)
    img=rng.random((ns,nf)).astype(np.float32); msk2=np.zeros(m.shape,np.int8)
    c.make_clean_mask(img,0.5,msk2,ret)
    row=np.empty(nnz,np.uint16); col=np.empty(nnz,np.uint16); tmp=np.empty(ns,np.int32)
    assert c.mask_to_coo(msk,row,col,tmp)==0
    # dense localmax on >=3x3
    if ns>=3 and nf>=3:
        im=rng.permutation(ns*nf).reshape(ns,nf).astype(np.float32)
        L=np.full((ns,nf),-7,np.int32); W=np.full((ns,nf),9,np.uint8)
        c.localmaxlabel(im,L,W)
    # overlaps with itself and a shifted copy
    k1=np.empty(nnz,np.int32); k2=np.empty(nnz,np.int32)
    c.sparse_overlaps(i,j,k1,i,j,k2)
    n+=1
print('ok',n)
