import numpy as np, time, itertools
from scipy.spatial.transform import Rotation
from ImageD11 import unitcell, indexing
indexing.loglevel=10
rng=np.random.default_rng(5)
def same(ubi,ubi0,tol):
    M=ubi@np.linalg.inv(ubi0)
    return np.abs(M-np.round(M)).max()<tol and abs(abs(np.linalg.det(np.round(M)))-1)<1e-9
viol=0; dup=0; tot=0; t0=time.time()
for (cell,sym,dsmax) in [([4.05]*3+[90,90,90],'F',1.0),([2.95,2.95,4.68,90,90,120],'P',0.9),([4.1,5.2,6.3,90,90,90],'P',0.7)]:
  uc=unitcell.unitcell(cell,sym)
  hkls=np.array([p[1] for p in uc.gethkls(dsmax)])
  for trial in range(60):
    ng=int(rng.integers(1,6))
    gv=[]
    for g in range(ng):
        U=Rotation.random(random_state=int(rng.integers(1<<30))).as_matrix()
        keep=rng.random(len(hkls))<rng.uniform(0.5,1)
        gv.append((U@uc.B@hkls[keep].T).T)
    gv=np.concatenate(gv)
    gv=gv+rng.normal(size=gv.shape)*rng.choice([1e-4,5e-4,2e-3,5e-3])
    nsp=int(rng.integers(0,len(gv)))
    sp=rng.normal(size=(nsp,3)); sp=sp/np.linalg.norm(sp,axis=1)[:,None]*rng.uniform(0.1,dsmax,nsp)[:,None]
    gv=np.concatenate([gv,sp]); gv=gv[rng.permutation(len(gv))]
    minpks=int(rng.choice([5,10,20,0.5*len(hkls)])); tol=rng.choice([0.01,0.02,0.05,0.1])
    ind=indexing.indexer(unitcell=unitcell.unitcell(cell,sym),gv=gv,wavelength=0.3,minpks=minpks,hkl_tol=tol,cosine_tol=rng.choice([0.002,0.01]),ds_tol=rng.choice([0.004,0.01]),max_grains=100)
    ind.score_all_pairs()
    for u in ind.ubis:
        tot+=1
        n=(indexing.calc_drlv2(u,gv)<tol*tol).sum()
        if not n>minpks or np.linalg.det(u)<=0:
            viol+=1
            if viol<5: print('VIOL npk',n,'minpks',minpks,'tol',tol,sym)
    for a,b in itertools.combinations(ind.ubis,2):
        if same(a,b,0.05): dup+=1
print('reported',tot,'viol',viol,'dup',dup,time.time()-t0)
