#!/bin/sh
# MANIFEST.setup_cmd: offline; makes sure hypothesis is importable by /venv/bin/python and
# pre-builds the two flavours of the compiled module from /repo's working tree.
HERE="$(cd "$(dirname "$0")" && pwd)"
cd "$HERE" || exit 2
PY=/venv/bin/python
if ! "$PY" -c "import hypothesis" 2>/dev/null; then
  PIP_NO_INDEX=1 /venv/bin/pip install --no-index --find-links /opt/veriftools/wheels hypothesis || exit 2
fi
"$PY" -m vf.build opt || exit 2
"$PY" -m vf.build asan || exit 2
echo setup ok
